//! Control fixtures: deliberately wrong (and matching correct) functions, analysed by the same driver and engine on
//! every run.  A run in which a wrong fixture is NOT flagged fails the check (kind=control-silent): an extractor or
//! normaliser regression cannot pass vacuously.  Nothing here is ever executed.
use std::fmt;
use std::io::{self, Write};

/// F1 wrong: reads byte 3 after checking only for 3 bytes.
pub fn f1_unguarded_index(b: &[u8]) -> u8 {
    if b.len() < 3 {
        return 0;
    }
    b[3]
}

/// F1 right.
pub fn f1_guarded_index(b: &[u8]) -> u8 {
    if b.len() < 4 {
        return 0;
    }
    b[3]
}

/// F2 wrong: str slice at find + 2 (not a char boundary in general).
pub fn f2_str_slice_past_find(s: &str) -> &str {
    match s.find('\r') {
        Some(i) if i + 2 <= s.len() => &s[..i + 2],
        _ => s,
    }
}

/// F2 right: slice at find + 1 (just after an ASCII char).
pub fn f2_str_slice_after_find(s: &str) -> &str {
    match s.find('\r') {
        Some(i) => &s[..i + 1],
        None => s,
    }
}

/// F3 wrong / right: little- vs big-endian length.
pub fn f3_le_length(b: &[u8; 2]) -> u16 {
    u16::from_le_bytes([b[0], b[1]])
}

pub fn f3_be_length(b: &[u8; 2]) -> u16 {
    u16::from_be_bytes([b[0], b[1]])
}

/// F4 wrong: a loop whose continuation does not advance any iterator.
pub fn f4_non_advancing_loop(b: &[u8]) -> usize {
    let mut n = 0usize;
    let mut it = b.iter().peekable();
    while it.peek().is_some() {
        n = n.wrapping_add(1);
    }
    n
}

/// F5 wrong: truncating cast without a dominating guard; right: guarded.
pub fn f5_truncating_cast(n: usize) -> u16 {
    n as u16
}

pub fn f5_guarded_cast(n: usize) -> u16 {
    if n > u16::MAX as usize {
        return 0;
    }
    n as u16
}

/// F6: a std callee the axiom table does not know.
pub fn f6_unknown_callee(v: &mut Vec<u8>) {
    v.dedup();
}

/// F7: a format template with known pieces (decoding of rustc's compact fmt encoding).
pub struct Pair(pub u16, pub u16);

impl fmt::Display for Pair {
    fn fmt(&self, f: &mut fmt::Formatter<'_>) -> fmt::Result {
        write!(f, "AB {} CD {}\r\n", self.0, self.1)
    }
}

/// F8 wrong: writes before checking the size limit; right: checks first.
pub fn f8_write_then_check(w: &mut Vec<u8>, value: &[u8]) -> io::Result<usize> {
    w.write_all(&[1u8])?;
    if value.len() > u16::MAX as usize {
        return Err(io::ErrorKind::WriteZero.into());
    }
    w.write_all(value)?;
    Ok(1 + value.len())
}

pub fn f8_check_then_write(w: &mut Vec<u8>, value: &[u8]) -> io::Result<usize> {
    if value.len() > u16::MAX as usize {
        return Err(io::ErrorKind::WriteZero.into());
    }
    w.write_all(&[1u8])?;
    w.write_all(value)?;
    Ok(1 + value.len())
}
