#!/usr/bin/env python3
"""Development aid (not a MANIFEST command): apply each catalogued one-site mutant to a scratch copy of
/repo and run the checks of the properties it is expected to break (and optionally all checks).
usage: run_mutants.py [--ids m01,m02] [--props C01,C02 | --all-props] [--jobs N] [--file mutants.json]"""
import json, os, shutil, subprocess, sys, tempfile
from concurrent.futures import ThreadPoolExecutor

VERIF = os.path.dirname(os.path.dirname(os.path.abspath(__file__)))


def available_props():
    m = json.load(open(os.path.join(VERIF, 'MANIFEST.json')))
    built = [f[:-3] for f in os.listdir(os.path.join(VERIF, 'engine', 'rules')) if f.startswith('C') and f.endswith('.py')]
    return sorted(built)


def run_one(mut, props):
    tmp = tempfile.mkdtemp(prefix='pppmut-')
    try:
        dst = os.path.join(tmp, 'repo')
        subprocess.run(['rsync', '-a', '--exclude', 'target', '--exclude', '.git', '/repo/', dst + '/'], check=True)
        if 'patch' in mut:
            p = subprocess.run(['patch', '-p1', '-s', '-d', dst], input=mut['patch'], text=True, capture_output=True)
            if p.returncode != 0:
                return mut['id'], {'_apply': 'patch failed: ' + p.stdout + p.stderr}
        else:
            path = os.path.join(dst, mut['file'])
            src = open(path).read()
            if mut['old'] not in src:
                return mut['id'], {'_apply': 'old text not found'}
            open(path, 'w').write(src.replace(mut['old'], mut['new'], 1))
        res = {}
        env = dict(os.environ, PPP_REPO=dst, PPP_REPORTS=os.path.join(tmp, 'reports'), PPP_EVIDENCE=os.path.join(tmp, 'evidence'))
        for pid in props:
            p = subprocess.run([os.path.join(VERIF, 'check'), pid], env=env, capture_output=True, text=True, cwd=VERIF)
            rules = sorted({l.split('rule=')[1].split()[0] for l in p.stdout.splitlines() if l.strip().startswith('rule=')})
            res[pid] = (p.returncode, rules)
        return mut['id'], res
    finally:
        shutil.rmtree(tmp, ignore_errors=True)


def main():
    args = sys.argv[1:]
    ids = None
    props = None
    jobs = 8
    allp = False
    f = os.path.join(VERIF, 'notes', 'mutants.json')
    i = 0
    while i < len(args):
        if args[i] == '--ids': ids = args[i + 1].split(','); i += 2
        elif args[i] == '--props': props = args[i + 1].split(','); i += 2
        elif args[i] == '--all-props': allp = True; i += 1
        elif args[i] == '--jobs': jobs = int(args[i + 1]); i += 2
        elif args[i] == '--file': f = args[i + 1]; i += 2
        else: i += 1
    muts = json.load(open(f))
    built = available_props()
    work = []
    for m in muts:
        if ids and m['id'] not in ids: continue
        if m.get('pinned_suite', 'SURVIVES').startswith('NO-COMPILE'): continue
        want = [p for p in m['properties'].split('/') if p in built]
        ps = built if allp else (props if props else want)
        ps = [p for p in ps if p in built]
        if not ps: continue
        work.append((m, ps))
    with ThreadPoolExecutor(jobs) as ex:
        for mid, res in ex.map(lambda w: run_one(*w), work):
            m = next(x for x in muts if x['id'] == mid)
            want = set(m['properties'].split('/'))
            caught = [p for p, r in res.items() if isinstance(r, tuple) and r[0] == 1]
            silent = [p for p, r in res.items() if isinstance(r, tuple) and r[0] == 0]
            status = 'CAUGHT' if caught else 'MISSED'
            if '_apply' in res: status = 'APPLY-FAIL ' + res['_apply']
            extra = [p for p in caught if p not in want]
            print('%-5s %-7s %-10s %s | caught by %s%s | silent: %s | rules: %s' % (
                mid, m['properties'], status, m['description'][:40], ','.join(caught) or '-', (' (unexpected: %s)' % ','.join(extra)) if extra else '',
                ','.join(silent) or '-', ';'.join('%s:%s' % (p, '+'.join(r[1])) for p, r in res.items() if isinstance(r, tuple) and r[1])))
            sys.stdout.flush()


if __name__ == '__main__':
    main()
