#!/bin/sh
# usage: scratch.sh <patch.diff> [dir]  -> scratch copy of /repo with the patch applied (development aid)
d=${2:-/tmp/ref_cur}
rm -rf "$d"; mkdir -p "$d"
rsync -a --exclude target --exclude .git /repo/ "$d/"
patch -p1 -s -d "$d" < "$1" && echo "$d"
