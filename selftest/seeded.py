#!/usr/bin/env python3
"""Development aid: confirm sub-agent-produced breaking changes (compile, 73 unit tests pass, demo fails with / passes without),
file them under /verif/seeded/<id>/ and run every check against each.
usage: seeded.py import /tmp/seed_out/C02/m1 C02-m1 C02     (verify + copy into /verif/seeded)
       seeded.py matrix [ids...] [--jobs N]                  (run all checks against every seeded change)"""
import json, os, shutil, subprocess, sys, tempfile
from concurrent.futures import ThreadPoolExecutor

VERIF = os.path.dirname(os.path.dirname(os.path.abspath(__file__)))
SEEDED = os.path.join(VERIF, 'seeded')


def scratch():
    tmp = tempfile.mkdtemp(prefix='pppseed-')
    dst = os.path.join(tmp, 'repo')
    subprocess.run(['rsync', '-a', '--exclude', 'target', '--exclude', '.git', '/repo/', dst + '/'], check=True)
    return tmp, dst


def cargo(dst, args, tmp):
    env = dict(os.environ, CARGO_NET_OFFLINE='true', CARGO_TARGET_DIR=os.path.join(tmp, 'tgt'))
    p = subprocess.run(['cargo', 'test', '--offline'] + args, cwd=dst, env=env, capture_output=True, text=True)
    return p.returncode, p.stdout + p.stderr


def verify(src):
    tmp, dst = scratch()
    try:
        os.makedirs(os.path.join(dst, 'tests'), exist_ok=True)
        shutil.copy(os.path.join(src, 'demo.rs'), os.path.join(dst, 'tests', 'demo.rs'))
        rc0, out0 = cargo(dst, ['--test', 'demo'], tmp)
        p = subprocess.run(['patch', '-p1', '-s', '-d', dst], input=open(os.path.join(src, 'patch.diff')).read(), text=True, capture_output=True)
        if p.returncode != 0:
            return {'ok': False, 'why': 'patch does not apply: ' + p.stdout + p.stderr}
        rc1, out1 = cargo(dst, ['--lib'], tmp)
        passed = '73 passed' in out1 and rc1 == 0
        rc2, out2 = cargo(dst, ['--test', 'demo'], tmp)
        res = {'ok': rc0 == 0 and passed and rc2 != 0, 'demo_passes_without': rc0 == 0, 'unit_tests_pass_with': passed, 'demo_fails_with': rc2 != 0,
               'ran': ['cargo test --offline --test demo (unchanged): rc=%d' % rc0, 'cargo test --offline --lib (changed): rc=%d, 73 passed=%s' % (rc1, passed),
                       'cargo test --offline --test demo (changed): rc=%d' % rc2]}
        if not res['ok']:
            res['why'] = (out0[-600:] if rc0 else '') + (out1[-600:] if not passed else '') + (out2[-300:] if rc2 == 0 else '')
        return res
    finally:
        shutil.rmtree(tmp, ignore_errors=True)


def run_checks(sid, props, base=None):
    d = os.path.join(base or SEEDED, sid)
    tmp, dst = scratch()
    try:
        p = subprocess.run(['patch', '-p1', '-s', '-d', dst], input=open(os.path.join(d, 'patch.diff')).read(), text=True, capture_output=True)
        if p.returncode != 0:
            return sid, {'_apply': p.stdout + p.stderr}
        env = dict(os.environ, PPP_REPO=dst, PPP_REPORTS=os.path.join(tmp, 'reports'), PPP_EVIDENCE=os.path.join(tmp, 'evidence'))
        res = {}
        for pid in props:
            q = subprocess.run([os.path.join(VERIF, 'check'), pid], env=env, capture_output=True, text=True, cwd=VERIF)
            rules = sorted({l.split('rule=')[1].split()[0] + ':' + l.split('kind=')[1].split()[0] for l in q.stdout.splitlines() if l.strip().startswith('rule=')})
            res[pid] = (q.returncode, rules)
        return sid, res
    finally:
        shutil.rmtree(tmp, ignore_errors=True)


def main():
    a = sys.argv[1:]
    if a[0] == 'import':
        src, sid, prop = a[1], a[2], a[3]
        r = verify(src)
        print(sid, json.dumps(r)[:900])
        if r['ok']:
            d = os.path.join(SEEDED, sid)
            os.makedirs(d, exist_ok=True)
            for f in ('patch.diff', 'demo.rs', 'README.md'):
                shutil.copy(os.path.join(src, f), os.path.join(d, f))
            meta = {'id': sid, 'breaks_property': prop, 'origin': 'independent sub-agent given only the property text and a scratch worktree',
                    'needs_to_manifest': open(os.path.join(src, 'README.md')).read()[:1500], 'confirmed': r['ran'], 'caught_by': None}
            json.dump(meta, open(os.path.join(d, 'meta.json'), 'w'), indent=1)
        return 0 if r['ok'] else 1
    if a[0] == 'silent':
        # behaviour-preserving refactorings: every check must stay silent
        base = os.path.join(VERIF, 'selftest', 'refactorings')
        jobs = 4
        ids = [x for x in a[1:] if not x.startswith('--')]
        if '--jobs' in a:
            jobs = int(a[a.index('--jobs') + 1]); ids = [x for x in ids if x != str(jobs)]
        ids = ids or sorted(os.listdir(base))
        props = ['C%02d' % i for i in range(1, 21)]
        with ThreadPoolExecutor(jobs) as ex:
            for sid, res in ex.map(lambda s: run_checks(s, props, base), ids):
                if '_apply' in res:
                    print('%-14s APPLY-FAIL %s' % (sid, res['_apply'][:200])); continue
                loud = {p: r[1] for p, r in res.items() if r[0] != 0}
                print('%-14s %s %s' % (sid, 'SILENT' if not loud else 'FALSE-ALARM', '; '.join('%s[%s]' % (p, ','.join(r)) for p, r in loud.items())))
                sys.stdout.flush()
        return 0
    if a[0] == 'matrix':
        jobs = 4
        ids = [x for x in a[1:] if not x.startswith('--')]
        if '--jobs' in a:
            jobs = int(a[a.index('--jobs') + 1]); ids = [x for x in ids if x != str(jobs)]
        ids = ids or sorted(os.listdir(SEEDED))
        props = ['C%02d' % i for i in range(1, 21)]
        with ThreadPoolExecutor(jobs) as ex:
            for sid, res in ex.map(lambda s: run_checks(s, props), ids):
                mp = os.path.join(SEEDED, sid, 'meta.json')
                meta = json.load(open(mp))
                caught = {p: r[1] for p, r in res.items() if isinstance(r, tuple) and r[0] == 1}
                meta['caught_by'] = caught
                json.dump(meta, open(mp, 'w'), indent=1)
                own = meta['breaks_property']
                print('%-8s breaks %s: %s | caught by: %s' % (sid, own, 'CAUGHT' if own in caught else ('caught-elsewhere' if caught else 'MISSED'),
                                                              '; '.join('%s[%s]' % (p, ','.join(r)) for p, r in caught.items()) or '-'))
                sys.stdout.flush()


if __name__ == '__main__':
    sys.exit(main())
