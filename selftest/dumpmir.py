#!/usr/bin/env python3
"""development aid: dumpmir.py <repo dir> <fn path substring>... -> pretty-printed MIR of matching functions; keeps /tmp/facts_dev.json for probe.py"""
import sys, os
sys.path.insert(0, os.path.join(os.path.dirname(os.path.dirname(os.path.abspath(__file__))), 'engine'))
import facts as F, mirpp
d, t = F.build_facts(crate_dir=sys.argv[1], keep='/tmp/facts_dev.json')
fx = F.Facts(d)
for p, f in fx.fns.items():
    if any(s in p for s in sys.argv[2:]):
        mirpp.pp(f)
