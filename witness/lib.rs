//! E6 — compile-fail / compile-pass witness pairs (DESIGN.md 3, C16.L, C06.F).
//! Every `compile_fail,E0xxx` block has a twin that differs only in the offending line and must compile
//! (`no_run`: the twins are type-checked and borrow-checked, never executed).

/// v1: an owned copy may outlive the input buffer; the borrowed header may not.
/// ```no_run
/// let owned = {
///     let buf = String::from("PROXY UNKNOWN\r\n");
///     let header = ppp::v1::Header::try_from(buf.as_str()).unwrap();
///     header.to_owned()
/// };
/// let _ = owned.header.len();
/// ```
/// ```compile_fail,E0597
/// let borrowed = {
///     let buf = String::from("PROXY UNKNOWN\r\n");
///     let header = ppp::v1::Header::try_from(buf.as_str()).unwrap();
///     header
/// };
/// let _ = borrowed.header.len();
/// ```
pub struct V1OwnedOutlivesBuffer;

/// v2: the buffer may be overwritten while an owned copy is alive; not while the borrowed header is.
/// ```no_run
/// let mut buf = vec![0u8; 64];
/// let header = ppp::v2::Header::try_from(buf.as_slice()).unwrap().to_owned();
/// buf.fill(0);
/// let _ = header.len();
/// ```
/// ```compile_fail,E0502
/// let mut buf = vec![0u8; 64];
/// let header = ppp::v2::Header::try_from(buf.as_slice()).unwrap();
/// buf.fill(0);
/// let _ = header.len();
/// ```
pub struct V2OwnedSurvivesOverwrite;

/// TLV: the buffer may be dropped while an owned TLV is alive; not while the borrowed one is.
/// ```no_run
/// let buf = vec![4u8, 0, 1, 42];
/// let tlv = ppp::v2::TypeLengthValues::from(buf.as_slice()).next().unwrap().unwrap().to_owned();
/// drop(buf);
/// let _ = tlv.len();
/// ```
/// ```compile_fail,E0505
/// let buf = vec![4u8, 0, 1, 42];
/// let tlv = ppp::v2::TypeLengthValues::from(buf.as_slice()).next().unwrap().unwrap();
/// drop(buf);
/// let _ = tlv.len();
/// ```
pub struct TlvOwnedSurvivesDrop;

/// Auto-detection: a v1 result cannot be tagged as version 2 (and vice versa).
/// ```no_run
/// let input: &[u8] = b"PROXY UNKNOWN\r\n";
/// let _r: ppp::HeaderResult = ppp::HeaderResult::V1(ppp::v1::Header::try_from(input));
/// ```
/// ```compile_fail,E0308
/// let input: &[u8] = b"PROXY UNKNOWN\r\n";
/// let _r: ppp::HeaderResult = ppp::HeaderResult::V2(ppp::v1::Header::try_from(input));
/// ```
pub struct VersionTagsAreTyped;
