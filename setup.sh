#!/bin/sh
# Builds the fact extractor (zero dependencies, nightly toolchain via rust-toolchain.toml). Offline.
set -e
cd "$(dirname "$0")"
export CARGO_NET_OFFLINE=true
(cd tools/pppfacts && cargo build --offline --release 2>&1 | tail -3)
test -x tools/pppfacts/target/release/pppfacts
python3 -m compileall -q engine >/dev/null 2>&1 || true
echo "setup ok"
