#!/usr/bin/env python3
"""Regenerates MANIFEST.json from the table below (one entry per property)."""
import json, os
VERIF = os.path.dirname(os.path.dirname(os.path.abspath(__file__)))
IDS = ["C%02d" % i for i in range(1, 21)]

TECH_SUM = "MIR value-flow summary (rustc_private facts, path-partitioned dataflow with std axioms) compared with a reference decision table; co-occurrence by Fourier-Motzkin entailment"

CLAIMS = {
 "C01": ("other", "Structural necessary conditions of the v1 grammar decided from the MIR summaries of both entry points and their common field parser: constants, window/limit terms, single tokeniser on {SP,CR}, keyword and field provenance of every accepting outcome, leading-zero and sign guards dominating Ok, CRLF suffix dominating Ok, TCP4/TCP6 sibling symmetry; acceptance compared with the spec's acceptance condition at the level of token predicates in both directions (no over-rejection of canonical lines, every accepting outcome entails each conjunct).", "5/C01",
         "NOT decided: acceptance <=> grammar for arbitrary strings (token contents: the IP-literal and decimal grammars are std's, by axiom); acceptance is compared with the spec condition at the level of token predicates and token layout only. Trusted: std axioms incl. the token-layout axiom of str::splitn and the stated leniencies of u16/Ipv4Addr/Ipv6Addr::from_str.", "MIR value-flow summaries with a token model (tok(split(text), k)); dominance of guards over accepting outcomes decided by conflict with the path condition"),
 "C08": ("other", "Display templates decoded from rustc's format_args encoding and compared piecewise with the canonical line per kind; argument order tied to the parser's token-to-field provenance; length bound by arithmetic over maximal widths; Header display echoes the stored window; FromStr delegation.", "5/C08",
         "NOT decided: the round trip itself (std Display/FromStr inverse is an axiom; parser acceptance of every canonical line is the undecided part of C01).", "format template decoding + MIR value-flow summaries compared with reference; formatter/parser cross-check"),
 "C15": ("other", "protocol() table, addresses_str offsets per kind under INV1, Display echo; the premises of INV1 are checked at every accepting outcome of the field parser.", "5/C15",
         "INV1 follows from its premises by the token-layout axiom of str::splitn (lemma in DESIGN.md App. C.7), not re-derived mechanically.", TECH_SUM),
 "C16": ("other", "Sibling agreement of the two v1 entry points against one window table; FromStr impls delegate; every field of the three to_owned functions is copied (Cow -> Cow::Owned of the same contents); 'static return types, no unsafe, no interior mutability; thorough tier: compile-fail witnesses.", "5/C16",
         "Agreement clause is structural (same window term, same field parser). Derived PartialEq is field-wise and Cow equality compares contents (axiom).", TECH_SUM + "; signature / type-walk queries; rustc compile-fail witnesses (thorough)"),
 "C18": ("other", "No-CR-at-107 => HeaderTooLong (terminal) in both entry points; after CR + 1 byte the result is a function of input[..CR+2]; default is_complete; Missing* only for absent tokens; and every incomplete outcome of the fully inlined entry points is tested for satisfiability together with 'the first CR is followed by a byte' using a token-layout theory of str::splitn (lengths and separator positions add up; first CR at a separator position). 17 outcome classes per entry point are reachable with a closed window on the current tree: genuine defects (family D6), each confirmed on the real library and listed by exact key in known_findings.json; the check prints KNOWN-FINDING for them and fails on any other class.", "5/C18 + 11",
         "Decided relative to the token-layout axiom of str::splitn as encoded in engine/layout.py; the known findings are not repaired because a repair means restructuring parse_header (not a small safe patch).", TECH_SUM + "; token-layout theory (linear facts over token lengths and separator positions) for closed-window reachability"),
 "C02": ("proof", "Every guarded outcome of the loop-free v2 parser, extracted from MIR, is compared with an exhaustive reference decision table (24 accepting rows with the exact decoded value, all rejecting row families); holds for every byte string relative to the std axioms.", "5/C02",
         "Trusted: rustc MIR/const-eval, the extractor and normaliser, std axioms (slice len/index/starts_with/==, u16::from_be_bytes, copy_from_slice, Ipv4Addr::new, Ipv6Addr::from). Panic freedom of the same function is C03.", TECH_SUM),
 "C05": ("other", "Flag algebra, classification of all 28 error variants, the v2 prefix rows and the auto-detector's fallback condition are decided for every input; for v1 only necessary structural conditions.", "5/C05",
         "Not decided: that every proper prefix of every accepted v1 line reaches an incomplete outcome (depends on token contents). Trusted: std axioms.", "impl-table queries + " + TECH_SUM),
 "C06": ("proof", "HeaderResult::parse is summarised with both parsers as uninterpreted functions of the same input; its truth table over the v2 result's variant must equal the specified one; From impls and delegation checked by summary.", "5/C06",
         "Trusted: std axioms for Result/Option; the classification of v2 error variants is the oracle's (spec/tables.py).", TECH_SUM),
 "C07": ("proof", "Code tables and BitOr impls from the type-checked program; wire layout of build via the builder transformers; parse-back decided by analysing the v2 parser on the reference wire bytes (24 control combinations, symbolic addresses and payload): single Ok outcome with identical command/transport/addresses/bytes, tlv_bytes = payload; TLV step mirror for the item sequence.", "5/C07",
         "The TLV-list clause is the induction from the step mirror (C07.M) and C11.R. Trusted: std axioms (octets/new/from of Ipv4Addr/Ipv6Addr mutually inverse, be/to_be_bytes inverse).", TECH_SUM + "; parser summary evaluated on the encoder's reference output"),
 "C09": ("proof", "build is summarised under every abstract builder pre-state x explicit length Some/None and compared with the reference (bytes 14..16 = explicit length read at build time, else measured size, Err over 65535); set_length frame; size-limited encoders refuse before writing; no truncating cast on builder paths. Transformer-level, hence for every history.", "5/C09",
         "Trusted: std axioms (u16::try_from, copy_from_slice, index_mut ranges).", TECH_SUM),
 "C10": ("proof", "Inductive invariant over the method transformers: every Ok outcome of write_payload/write_tlv/write_payloads has header = Some(PRE ++ enc(payload)), other fields framed; batch loop judged by the append-loop idiom (widening fixpoint, one write_to per next()); constructors and reserve_capacity compared with references.", "5/C10",
         "Generic payloads use the WriteToHeader contract (writer := old ++ enc(x)) that C20.E establishes for every impl. Trusted: std axioms (Vec push/extend/reserve/with_capacity, Option::take).", TECH_SUM + "; loop widening + idiom rule; frame (who-may-write) checks"),
 "C13": ("proof", "For each accepted control combination the generic accepted header is parsed by the parser summary, its views computed by the accessor summaries, and the fixed rebuild histories (raw views; decoded address value) composed from the builder transformers; every path must be Ok and normalise to the original bytes; item re-encoding equals the slice it was read from.", "5/C13",
         "Trusted: std axioms. The 'decoded items' clause for whole sections is the induction over C11.R tiling + C13.I.", "composition of MIR value-flow summaries along a fixed call history, compared by sequence normalisation"),
 "C11": ("proof", "The loop-free Iterator::next step is compared with the reference TLV step (value and cursor update) on its four-way partition; ranking/typestate facts (error parks the cursor, item advances by >= 3 and stays inside) are entailed by the extracted guards; constructors and field frames checked. Provided Iterator methods overridden for TypeLengthValues (count, last, fold, for_each, nth, any, all, position) must agree with next on the base cases with at most one item (C11.O, a necessary condition); every panic obligation of next is discharged.", "5/C11",
         "Trusted: std axioms (slice index/len, from_be_bytes). Induction over calls is the standard argument from the step relation (DESIGN.md C11.R).", TECH_SUM + "; who-may-write query on private fields"),
 "C12": ("other", "v2: single-corruption rows of the decision table resolve to the element's variant carrying the offending value, all terminal; decided for every byte string. v1: on every path that returns Invalid<field k> the validity of field k is unsatisfiable and the validity of every earlier field is entailed (token predicates); FromStr reports exactly try_from's error; entry points discharge all panic obligations.", "5/C12",
         "Not decided (v1): which check a corrupted string reaches first. Trusted: std axioms.", TECH_SUM),
 "C17": ("proof", "Incomplete/Partial payload terms and the exact row regions in which they are produced are compared with the reference; guards read no byte at index >= 16, so appended bytes move a scenario only along the length axis.", "5/C17",
         "Trusted: std axioms; the accepting row for len = 16+L is the same table as C02.", TECH_SUM + "; read-set scan of guards"),
 "C03": ("proof", "Every MIR Assert terminator and every panicking std callee on any path of the in-scope entry points and accessors is an inequality obligation that must be entailed by its dominating guards (Fourier-Motzkin); str index bounds must be provable char boundaries; loops must advance a finite iterator; no unknown callee; thorough tier repeats it for the release configuration. Scope completeness (C03.S): every hand-written function of the parsing / model / error modules is analysed, by the listed entries or on its own (for those extra functions only obligations free of loop-carried values are judged).", "5/C03",
         "INV2 of v2 headers is proved at construction; INV1 of v1 headers is assumed here (its derivation is C01.S). Trusted: std functions with an axiom are total apart from their stated panic conditions; allocation failure / stack exhaustion out of scope.", "panic-obligation extraction from MIR + linear entailment under dominating guards; loop-idiom and call-graph rules"),
 "C04": ("other", "v2 and auto-detector decided for every input (monotone length guards, read-set inside [0,16+L), header = input[..16+L]); v1 clause structural (window cut at first CR + 2, CRLF established before Ok). C04.L: len() / as_bytes() / length() of an accepted v2 header are the reported header (16 + declared length).", "5/C04",
         "The v1 part rests on rules C01.W/C01.S (token-layout axiom). Trusted: std axioms.", TECH_SUM + "; guard monotonicity and read-set scans"),
 "C14": ("proof", "INV2 is proved at every accepting outcome of the v2 parser; under INV2 and per address variant each accessor summary must equal the reference view (shared split term, sizes, family images). C14.D: the accepting rows of the v2 decision table (decoded address value = decoding of the address view) are evaluated here too; accessor panic obligations are discharged under INV2.", "5/C14",
         "Trusted: std axioms (Cow deref, slice index/len, min). Headers built by hand from public fields are outside 'accepted headers'.", "MIR value-flow summaries under a proved type invariant compared with reference views"),
 "C20": ("proof", "For each of the 19 WriteToHeader impls every Ok outcome must leave writer = old ++ E and return Ok(len E) for the reference encoding E, no Err outcome may be possible when the value is within its limit and the writer has room, over-limit values are refused with nothing written; Writer::write / finish / From / flush and the to_bytes default are compared with their references.", "5/C20",
         "Reading of 'below its size limit': the writer has room for the whole encoding; refusal between segments near the 65551-byte guard is not spoken to. Trusted: std axioms (write_all over Writer::write, to_be_bytes, octets).", TECH_SUM),
 "C19": ("proof", "Field provenance of the 13 constructors/conversions by value-flow summary; v1/v2 tuple conversions compared as siblings.", "5/C19",
         "Trusted: SocketAddrV4/V6::{ip,port} return the stored components (axiom); Into::into on a generic argument is uninterpreted.", "MIR value-flow summary compared slot by slot with the reference provenance; sibling comparison"),
}

REASON_NOT_BUILT = "rules for this property are not built yet in this revision (see DESIGN.md section 9 build order)"


def main():
    checks = []
    na = []
    for pid in IDS:
        if pid in CLAIMS and os.path.exists(os.path.join(VERIF, 'engine', 'rules', pid + '.py')):
            cat, text, ref, note, tech = CLAIMS[pid]
            checks.append({
                "property_id": pid,
                "quick_cmd": "./check %s --tier quick" % pid,
                "thorough_cmd": "./check %s --tier thorough" % pid,
                "evidence_file": "evidence/%s.json" % pid,
                "replay_cmd_template": "./check %s --explain {path}" % pid,
                "engine": "pppfacts+sum",
                "level_claimed": {"category": cat, "text": text, "design_ref": "DESIGN.md " + ref},
                "level_note": note,
                "technique": tech,
            })
        else:
            na.append({"property_id": pid, "reason": NA.get(pid, REASON_NOT_BUILT)})
    m = {
        "version": 1,
        "setup_cmd": "./setup.sh",
        "hooks": {"guard": "misalcedo_ppp_verif",
                  "enable": "none needed: the checks analyse the unmodified build (cargo +nightly check through a rustc_private wrapper); no hook exists in /repo",
                  "baseline_off_cmd": "cd /repo && cargo test --workspace --no-fail-fast --offline",
                  "source_commits": [], "add_only": True},
        "engines": [
            {"name": "pppfacts", "path": "tools/pppfacts", "serves_properties": IDS,
             "kind_free_text": "rustc_private driver: dumps type-checked items, impl table, ADTs with discriminants, evaluated consts and per-function MIR with resolved callees as JSON (fresh target dir per run)"},
            {"name": "sum", "path": "engine", "serves_properties": IDS,
             "kind_free_text": "Python static analyser: path-partitioned MIR value-flow summaries with std axioms, Fourier-Motzkin entailment, reference tables (engine/spec), per-property rules (engine/rules)"},
        ],
        "checks": checks,
        "notes": "Static analysis only (DESIGN.md). Every check rebuilds facts from /repo's working tree; nothing from /repo is executed.",
        "not_applicable": na,
    }
    json.dump(m, open(os.path.join(VERIF, 'MANIFEST.json'), 'w'), indent=1)
    print('checks:', [c['property_id'] for c in checks])
    print('not_applicable:', [x['property_id'] for x in na])


NA = {}

if __name__ == '__main__':
    main()
