#!/usr/bin/env python3
"""Development aid (never run by a check): rebuild the C18 entries of known_findings.json.
For every class key reported by rule C18.X on the current tree, take the witness input from the table below, confirm on the real
library (scratch crate outside /repo and /verif, removed afterwards) that the witness and several extensions of it all return the
named incomplete verdict, and write the entry.  A class without a confirmed witness is NOT written (the check then reports it)."""
import json, os, re, shutil, subprocess, sys, tempfile, glob

VERIF = os.path.dirname(os.path.dirname(os.path.abspath(__file__)))


def witness(verdict, kw, n):
    if verdict == 'MissingDestinationAddress' and n == 3: return 'PROXY %s\rX' % kw
    if verdict == 'MissingSourcePort' and n == 4: return 'PROXY %s a\rX' % kw
    if verdict == 'MissingDestinationPort' and n == 5: return 'PROXY %s a b\rX' % kw
    if verdict == 'MissingDestinationPort' and n == 6: return 'PROXY %s a b\r ' % kw
    if verdict == 'MissingNewLine' and kw == 'TCP4' and n == 6: return 'PROXY TCP4 1.1.1.1 2.2.2.2 1\r2'
    if verdict == 'MissingNewLine' and kw == 'TCP6' and n == 6: return 'PROXY TCP6 ::1 ::2 1\r2'
    if verdict == 'MissingNewLine' and kw == 'UNKNOWN' and 3 <= n <= 7: return 'PROXY UNKNOWN' + ' ' * (n - 3) + '\rX'
    if verdict == 'Partial' and kw == 'first-token' and 2 <= n <= 7: return 'P' + ' ' * (n - 2) + '\rP'
    if verdict == 'Partial' and kw == 'after-PROXY' and n == 2: return 'PROXY\rT'
    if verdict == 'Partial' and kw == 'after-PROXY' and 3 <= n <= 7: return 'PROXY T' + ' ' * (n - 3) + '\rT'
    return None


def main():
    subprocess.run([os.path.join(VERIF, 'check'), 'C18'], cwd=VERIF, capture_output=True, text=True)
    keys = sorted(json.load(open(f))['vkey'] for f in glob.glob(os.path.join(VERIF, 'reports', 'C18', '*.json')))
    keys = [k for k in keys if '/C18.X/' in k]
    kf = json.load(open(os.path.join(VERIF, 'known_findings.json')))
    already = {f['key'] for f in kf['findings']}
    cases = []
    for k in keys:
        m = re.search(r'/(str|bytes)/(\w+)/([\w-]+)/tokens=(\d+)/', k)
        if not m:
            print('no class in key', k); continue
        which, verdict, kw, n = m.group(1), m.group(2), m.group(3), int(m.group(4))
        w = witness(verdict, kw, n)
        if w is None:
            print('NO WITNESS for', k); continue
        cases.append((k, which, verdict, kw, n, w))
    tmp = tempfile.mkdtemp(prefix='pppwit-')
    try:
        os.makedirs(os.path.join(tmp, 'src'))
        open(os.path.join(tmp, 'Cargo.toml'), 'w').write('[package]\nname="wit"\nversion="0.0.0"\nedition="2021"\n[dependencies]\nppp={path="/repo"}\n[workspace]\n')
        if os.path.exists('/repo/Cargo.lock'):
            shutil.copy('/repo/Cargo.lock', os.path.join(tmp, 'Cargo.lock'))
        body = ['use ppp::v1; use ppp::PartialResult; use std::convert::TryFrom;', 'fn main() {']
        for i, (k, which, verdict, kw, n, w) in enumerate(cases):
            lit = ''.join('\\x%02x' % b for b in w.encode())
            for j, ext in enumerate(['', 'Z', '\\r\\n', ' more bytes follow\\r\\n\\r\\n']):
                if which == 'str':
                    body.append('  { let s = "%s%s"; let r = v1::Header::try_from(s); let ok = matches!(r, Err(v1::ParseError::%s)) && r.is_incomplete(); println!("%d {} {:?}", ok, r); }' % (lit, ext, verdict, i))
                else:
                    body.append('  { let s = b"%s%s"; let r = v1::Header::try_from(&s[..]); let ok = matches!(r, Err(v1::BinaryParseError::Parse(v1::ParseError::%s))) && r.is_incomplete(); println!("%d {} {:?}", ok, r); }' % (lit, ext, verdict, i))
        body.append('}')
        open(os.path.join(tmp, 'src', 'main.rs'), 'w').write('\n'.join(body))
        env = dict(os.environ, CARGO_NET_OFFLINE='true', CARGO_TARGET_DIR=os.path.join(tmp, 'tgt'))
        p = subprocess.run(['cargo', 'run', '--offline', '--quiet'], cwd=tmp, env=env, capture_output=True, text=True)
        if p.returncode != 0:
            print(p.stderr[-3000:]); sys.exit(2)
        okc = {}
        for line in p.stdout.splitlines():
            i, ok, rest = line.split(' ', 2)
            okc.setdefault(int(i), []).append(ok == 'true')
    finally:
        shutil.rmtree(tmp, ignore_errors=True)
    new = [f for f in kf['findings'] if f.get('property') != 'C18']
    for i, (k, which, verdict, kw, n, w) in enumerate(cases):
        if not (len(okc.get(i, [])) == 4 and all(okc[i])):
            print('WITNESS NOT CONFIRMED', k, repr(w), okc.get(i)); continue
        entry = 'v1::Header::try_from(&str)' if which == 'str' else 'v1::Header::try_from(&[u8])'
        new.append({'property': 'C18', 'key': k, 'witness': w,
                    'what': '%s on %s (first CR followed by a byte) returns %s, flagged incomplete, and keeps doing so however many bytes follow '
                            '(rule C18.X class %s/%s/tokens=%d; defect family D6: not repaired - needs the line/token structure of parse_header reworked)'
                            % (entry, json.dumps(w), verdict, verdict, kw, n)})
    kf['findings'] = new
    json.dump(kf, open(os.path.join(VERIF, 'known_findings.json'), 'w'), indent=1)
    print('%d C18 findings written (%d classes reported, %d previously listed)' % (len(new), len(keys), len(already)))


if __name__ == '__main__':
    main()
