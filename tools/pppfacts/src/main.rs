// pppfacts: rustc_private driver that dumps type-checked facts (items, ADTs, impls, evaluated
// constants, per-function MIR with resolved callees) of one crate as JSON.
// Used as RUSTC_WORKSPACE_WRAPPER: argv = [pppfacts, <rustc>, rustc-args...].
// Env: PPPFACTS_CRATE (crate name to dump, default "ppp"), PPPFACTS_OUT (output file).
#![feature(rustc_private)]
#![allow(clippy::all)]

extern crate rustc_abi;
extern crate rustc_driver;
extern crate rustc_hir;
extern crate rustc_interface;
extern crate rustc_middle;
extern crate rustc_span;

use rustc_driver::{Callbacks, Compilation};
use rustc_hir::def::DefKind;
use rustc_hir::def_id::{DefId, LOCAL_CRATE};
use rustc_middle::mir::{self, interpret::GlobalAlloc, ConstValue};
use rustc_middle::ty::print::PrintTraitRefExt;
use rustc_middle::ty::{self, Ty, TyCtxt, TypingEnv};
use rustc_span::Span;
use std::fmt::Write as _;

// ------------------------------------------------------------------------------------------
// minimal JSON value
#[derive(Clone)]
enum J {
    Null,
    Bool(bool),
    Int(i128),
    Str(String),
    Arr(Vec<J>),
    Obj(Vec<(&'static str, J)>),
}

fn s<T: Into<String>>(x: T) -> J {
    J::Str(x.into())
}

impl J {
    fn write(&self, out: &mut String) {
        match self {
            J::Null => out.push_str("null"),
            J::Bool(b) => out.push_str(if *b { "true" } else { "false" }),
            J::Int(i) => {
                let _ = write!(out, "{}", i);
            }
            J::Str(st) => {
                out.push('"');
                for c in st.chars() {
                    match c {
                        '"' => out.push_str("\\\""),
                        '\\' => out.push_str("\\\\"),
                        '\n' => out.push_str("\\n"),
                        '\r' => out.push_str("\\r"),
                        '\t' => out.push_str("\\t"),
                        c if (c as u32) < 0x20 => {
                            let _ = write!(out, "\\u{:04x}", c as u32);
                        }
                        c => out.push(c),
                    }
                }
                out.push('"');
            }
            J::Arr(v) => {
                out.push('[');
                for (i, x) in v.iter().enumerate() {
                    if i > 0 {
                        out.push(',');
                    }
                    x.write(out);
                }
                out.push(']');
            }
            J::Obj(v) => {
                out.push('{');
                for (i, (k, x)) in v.iter().enumerate() {
                    if i > 0 {
                        out.push(',');
                    }
                    let _ = write!(out, "\"{}\":", k);
                    x.write(out);
                }
                out.push('}');
            }
        }
    }
}

// ------------------------------------------------------------------------------------------
struct Cx<'tcx> {
    tcx: TyCtxt<'tcx>,
}

impl<'tcx> Cx<'tcx> {
    fn span(&self, sp: Span) -> J {
        let sm = self.tcx.sess.source_map();
        let lo = sm.lookup_char_pos(sp.lo());
        let name = format!("{}", lo.file.name.prefer_local_unconditionally());
        s(format!("{}:{}:{}", name, lo.line, lo.col.0 + 1))
    }

    fn path(&self, d: DefId) -> String {
        self.tcx.def_path_str(d)
    }

    fn ty(&self, t: Ty<'tcx>) -> J {
        s(format!("{}", t))
    }

    fn bytes_hex(b: &[u8]) -> String {
        let mut o = String::with_capacity(b.len() * 2);
        for x in b {
            let _ = write!(o, "{:02x}", x);
        }
        o
    }

    /// Read `len` bytes at `off` of a global memory allocation, if it holds plain bytes.
    fn read_alloc(&self, alloc_id: mir::interpret::AllocId, off: usize, len: usize) -> Option<Vec<u8>> {
        match self.tcx.try_get_global_alloc(alloc_id)? {
            GlobalAlloc::Memory(a) => {
                let a = a.inner();
                if off + len > a.len() {
                    return None;
                }
                if !a.provenance().ptrs().is_empty() {
                    // only allow if no pointer lies inside the range we read
                    for (o, _) in a.provenance().ptrs().iter() {
                        let o = o.bytes() as usize;
                        if o + 8 > off && o < off + len {
                            return None;
                        }
                    }
                }
                Some(a.inspect_with_uninit_and_ptr_outside_interpreter(off..off + len).to_vec())
            }
            _ => None,
        }
    }


    /// Read a (ptr,len) fat pointer to bytes/str stored at `off` in allocation `alloc_id`.
    fn read_fat(&self, alloc_id: mir::interpret::AllocId, off: usize) -> Option<Vec<u8>> {
        if let Some(GlobalAlloc::Memory(a)) = self.tcx.try_get_global_alloc(alloc_id) {
            let a = a.inner();
            if off + 16 <= a.len() {
                let raw = a.inspect_with_uninit_and_ptr_outside_interpreter(off..off + 16).to_vec();
                let mut target = None;
                for (o2, prov) in a.provenance().ptrs().iter() {
                    if o2.bytes() as usize == off {
                        target = Some(prov.alloc_id());
                    }
                }
                if let Some(tid) = target {
                    let poff = u64::from_le_bytes(raw[0..8].try_into().unwrap()) as usize;
                    let len = u64::from_le_bytes(raw[8..16].try_into().unwrap()) as usize;
                    return self.read_alloc(tid, poff, len);
                }
            }
        }
        None
    }

    fn is_fat_bytes(&self, t: Ty<'tcx>) -> bool {
        matches!(t.kind(), ty::Ref(_, inner, _) if inner.is_str() || matches!(inner.kind(), ty::Slice(e) if *e == self.tcx.types.u8))
    }

    fn const_value(&self, v: ConstValue, t: Ty<'tcx>, env: TypingEnv<'tcx>) -> J {
        let mut o: Vec<(&'static str, J)> = vec![("ty", self.ty(t))];
        match v {
            ConstValue::Scalar(mir::interpret::Scalar::Int(i)) => {
                let size = i.size();
                let bits = i.to_bits(size);
                o.push(("bits", J::Int(bits as i128)));
                o.push(("size", J::Int(size.bytes() as i128)));
                let signed = matches!(t.kind(), ty::Int(_));
                let val: i128 = if signed {
                    let sh = 128 - size.bits();
                    if sh >= 128 { 0 } else { ((bits << sh) as i128) >> sh }
                } else {
                    bits as i128
                };
                o.push(("int", J::Int(val)));
            }
            ConstValue::Scalar(mir::interpret::Scalar::Ptr(p, _)) => {
                let (prov, off) = p.into_raw_parts();
                let alloc_id = prov.alloc_id();
                let pointee = match t.kind() {
                    ty::Ref(_, inner, _) => Some(*inner),
                    ty::RawPtr(inner, _) => Some(*inner),
                    _ => None,
                };
                let mut done = false;
                if let Some(GlobalAlloc::Function { instance }) = self.tcx.try_get_global_alloc(alloc_id) {
                    o.push(("fnptr", s(self.path(instance.def_id()))));
                    done = true;
                }
                if !done {
                    if let Some(pt) = pointee {
                        if self.is_fat_bytes(pt) {
                            if let Some(b) = self.read_fat(alloc_id, off.bytes() as usize) {
                                let is_str = matches!(pt.kind(), ty::Ref(_, inner, _) if inner.is_str());
                                if is_str {
                                    o.push(("str", s(String::from_utf8_lossy(&b).to_string())));
                                }
                                o.push(("slice_bytes", s(Self::bytes_hex(&b))));
                                o.push(("ref_depth", J::Int(2)));
                                done = true;
                            }
                        }
                    }
                }
                if !done {
                    if let Some(pt) = pointee {
                        if let Ok(layout) = self.tcx.layout_of(env.as_query_input(pt)) {
                            let len = layout.size.bytes() as usize;
                            if let Some(b) = self.read_alloc(alloc_id, off.bytes() as usize, len) {
                                o.push(("ref_bytes", s(Self::bytes_hex(&b))));
                                done = true;
                            }
                        }
                    }
                }
                if let Some(pt) = pointee {
                    // a reference to an aggregate constant (e.g. a promoted `&[KEYWORD_A, KEYWORD_B]`): structured view of the pointee
                    if matches!(pt.kind(), ty::Array(..) | ty::Tuple(..) | ty::Adt(..)) {
                        let iv = ConstValue::Indirect { alloc_id, offset: off };
                        if let Some(a) = self.destructure(iv, pt, env, 0) {
                            o.push(("agg", a));
                            done = true;
                        }
                    }
                }
                if !done {
                    o.push(("opaque", s(format!("{:?}", v))));
                }
            }
            ConstValue::ZeroSized => {
                if let ty::FnDef(d, args) = t.kind() {
                    o.push(("fn", s(self.path(*d))));
                    o.push(("fn_args", J::Arr(args.iter().map(|a| s(format!("{}", a))).collect())));
                } else {
                    o.push(("zst", J::Bool(true)));
                }
            }
            ConstValue::Slice { alloc_id, meta } => {
                if let Some(b) = self.read_alloc(alloc_id, 0, meta as usize) {
                    let is_str = matches!(t.kind(), ty::Ref(_, inner, _) if inner.is_str());
                    if is_str {
                        o.push(("str", s(String::from_utf8_lossy(&b).to_string())));
                    }
                    o.push(("slice_bytes", s(Self::bytes_hex(&b))));
                } else {
                    o.push(("opaque", s(format!("{:?}", v))));
                }
            }
            ConstValue::Indirect { alloc_id, offset } => {
                let mut done = false;
                if self.is_fat_bytes(t) {
                    if let Some(b) = self.read_fat(alloc_id, offset.bytes() as usize) {
                        let is_str = matches!(t.kind(), ty::Ref(_, inner, _) if inner.is_str());
                        if is_str {
                            o.push(("str", s(String::from_utf8_lossy(&b).to_string())));
                        }
                        o.push(("slice_bytes", s(Self::bytes_hex(&b))));
                        done = true;
                    }
                }
                if done {
                } else if let Ok(layout) = self.tcx.layout_of(env.as_query_input(t)) {
                    let len = layout.size.bytes() as usize;
                    if let Some(b) = self.read_alloc(alloc_id, offset.bytes() as usize, len) {
                        o.push(("raw_bytes", s(Self::bytes_hex(&b))));
                        done = true;
                    }
                }
                if let Some(a) = self.destructure(v, t, env, 0) {
                    o.push(("agg", a));
                    done = true;
                }
                if !done {
                    o.push(("opaque", s(format!("{:?}", v))));
                }
            }
        }
        J::Obj(o)
    }

    /// Structured view of an aggregate constant (array / tuple / struct / enum), leaves as in const_value.
    fn destructure(&self, v: ConstValue, t: Ty<'tcx>, env: TypingEnv<'tcx>, depth: usize) -> Option<J> {
        if depth > 4 {
            return None;
        }
        match t.kind() {
            ty::Array(..) | ty::Tuple(..) | ty::Adt(..) => {}
            _ => return None,
        }
        if let ty::Adt(def, _) = t.kind() {
            if def.is_union() {
                return None;
            }
        }
        let d = self.tcx.try_destructure_mir_constant_for_user_output(v, t)?;
        let mut fields = Vec::new();
        for (fv, fty) in d.fields.iter() {
            let leaf = match self.destructure(*fv, *fty, env, depth + 1) {
                Some(a) => J::Obj(vec![("ty", self.ty(*fty)), ("agg", a)]),
                None => self.const_value(*fv, *fty, env),
            };
            fields.push(leaf);
        }
        let mut o: Vec<(&'static str, J)> = Vec::new();
        match t.kind() {
            ty::Array(..) => o.push(("kind", s("array"))),
            ty::Tuple(..) => o.push(("kind", s("tuple"))),
            ty::Adt(def, _) => {
                o.push(("kind", s("adt")));
                o.push(("adt", s(self.path(def.did()))));
                let vi = d.variant.unwrap_or(rustc_abi::FIRST_VARIANT);
                o.push(("variant", s(def.variant(vi).name.to_string())));
                o.push(("names", J::Arr(def.variant(vi).fields.iter().map(|f| s(f.name.to_string())).collect())));
            }
            _ => {}
        }
        o.push(("fields", J::Arr(fields)));
        Some(J::Obj(o))
    }

    fn mir_const(&self, c: &mir::ConstOperand<'tcx>, env: TypingEnv<'tcx>) -> J {
        let t = c.const_.ty();
        match c.const_.eval(self.tcx, env, c.span) {
            Ok(v) => self.const_value(v, t, env),
            Err(_) => J::Obj(vec![("ty", self.ty(t)), ("unevaluated", s(format!("{:?}", c.const_)))]),
        }
    }

    fn place(&self, body: &mir::Body<'tcx>, p: mir::Place<'tcx>) -> J {
        let mut pty = mir::PlaceTy::from_ty(body.local_decls[p.local].ty);
        let mut projs = Vec::new();
        for elem in p.projection.iter() {
            let j = match elem {
                mir::ProjectionElem::Deref => J::Obj(vec![("k", s("deref"))]),
                mir::ProjectionElem::Field(f, _) => {
                    let mut name = format!("{}", f.index());
                    if let ty::Adt(def, _) = pty.ty.kind() {
                        let vi = pty.variant_index.unwrap_or(rustc_abi::FIRST_VARIANT);
                        if def.is_enum() || def.is_struct() || def.is_union() {
                            if let Some(fd) = def.variant(vi).fields.get(f) {
                                name = fd.name.to_string();
                            }
                        }
                    }
                    J::Obj(vec![("k", s("field")), ("i", J::Int(f.index() as i128)), ("name", s(name))])
                }
                mir::ProjectionElem::Index(l) => J::Obj(vec![("k", s("index")), ("l", J::Int(l.index() as i128))]),
                mir::ProjectionElem::ConstantIndex { offset, min_length, from_end } => J::Obj(vec![
                    ("k", s("cindex")),
                    ("off", J::Int(offset as i128)),
                    ("min", J::Int(min_length as i128)),
                    ("end", J::Bool(from_end)),
                ]),
                mir::ProjectionElem::Subslice { from, to, from_end } => J::Obj(vec![
                    ("k", s("subslice")),
                    ("from", J::Int(from as i128)),
                    ("to", J::Int(to as i128)),
                    ("end", J::Bool(from_end)),
                ]),
                mir::ProjectionElem::Downcast(_, vi) => {
                    let mut name = format!("{}", vi.index());
                    if let ty::Adt(def, _) = pty.ty.kind() {
                        name = def.variant(vi).name.to_string();
                    }
                    J::Obj(vec![("k", s("downcast")), ("v", s(name)), ("i", J::Int(vi.index() as i128))])
                }
                other => J::Obj(vec![("k", s("other")), ("dbg", s(format!("{:?}", other)))]),
            };
            projs.push(j);
            pty = pty.projection_ty(self.tcx, elem);
        }
        J::Obj(vec![("l", J::Int(p.local.index() as i128)), ("p", J::Arr(projs)), ("ty", self.ty(pty.ty))])
    }

    fn operand(&self, body: &mir::Body<'tcx>, op: &mir::Operand<'tcx>, env: TypingEnv<'tcx>) -> J {
        match op {
            mir::Operand::Copy(p) => J::Obj(vec![("copy", self.place(body, *p))]),
            mir::Operand::Move(p) => J::Obj(vec![("move", self.place(body, *p))]),
            mir::Operand::Constant(c) => J::Obj(vec![("const", self.mir_const(c, env))]),
            #[allow(unreachable_patterns)]
            other => J::Obj(vec![("other", s(format!("{:?}", other)))]),
        }
    }

    fn adt_info(&self, t: Ty<'tcx>) -> Option<String> {
        if let ty::Adt(def, _) = t.kind() {
            Some(self.path(def.did()))
        } else {
            None
        }
    }

    fn rvalue(&self, body: &mir::Body<'tcx>, rv: &mir::Rvalue<'tcx>, env: TypingEnv<'tcx>) -> J {
        use mir::Rvalue::*;
        match rv {
            Use(op, ..) => J::Obj(vec![("k", s("use")), ("op", self.operand(body, op, env))]),
            Repeat(op, n) => J::Obj(vec![
                ("k", s("repeat")),
                ("op", self.operand(body, op, env)),
                ("n", match n.try_to_target_usize(self.tcx) { Some(v) => J::Int(v as i128), None => J::Null }),
            ]),
            Ref(_, bk, p) => J::Obj(vec![
                ("k", s("ref")),
                ("bk", s(match bk {
                    mir::BorrowKind::Shared => "shared",
                    mir::BorrowKind::Fake(_) => "fake",
                    mir::BorrowKind::Mut { .. } => "mut",
                })),
                ("place", self.place(body, *p)),
            ]),
            RawPtr(_, p) => J::Obj(vec![("k", s("rawptr")), ("place", self.place(body, *p))]),
            Cast(ck, op, t) => J::Obj(vec![
                ("k", s("cast")),
                ("ck", s(format!("{:?}", ck))),
                ("op", self.operand(body, op, env)),
                ("from", self.ty(op.ty(&body.local_decls, self.tcx))),
                ("ty", self.ty(*t)),
            ]),
            BinaryOp(op, ab) => J::Obj(vec![
                ("k", s("binop")),
                ("op", s(format!("{:?}", op))),
                ("a", self.operand(body, &ab.0, env)),
                ("b", self.operand(body, &ab.1, env)),
                ("ty", self.ty(ab.0.ty(&body.local_decls, self.tcx))),
            ]),
            UnaryOp(op, a) => J::Obj(vec![
                ("k", s("unop")),
                ("op", s(format!("{:?}", op))),
                ("a", self.operand(body, a, env)),
                ("ty", self.ty(a.ty(&body.local_decls, self.tcx))),
            ]),
            Discriminant(p) => J::Obj(vec![("k", s("discr")), ("place", self.place(body, *p))]),
            Aggregate(kind, ops) => {
                let opsj: Vec<J> = ops.iter().map(|o| self.operand(body, o, env)).collect();
                let mut o = vec![("k", s("agg"))];
                match &**kind {
                    mir::AggregateKind::Array(t) => {
                        o.push(("ak", s("array")));
                        o.push(("elem_ty", self.ty(*t)));
                    }
                    mir::AggregateKind::Tuple => o.push(("ak", s("tuple"))),
                    mir::AggregateKind::Adt(did, vi, _args, _, active) => {
                        let def = self.tcx.adt_def(*did);
                        o.push(("ak", s("adt")));
                        o.push(("adt", s(self.path(*did))));
                        let v = def.variant(*vi);
                        o.push(("variant", s(v.name.to_string())));
                        o.push(("vidx", J::Int(vi.index() as i128)));
                        o.push(("is_enum", J::Bool(def.is_enum())));
                        o.push(("fields", J::Arr(v.fields.iter().map(|f| s(f.name.to_string())).collect())));
                        if let Some(a) = active {
                            o.push(("active", J::Int(a.index() as i128)));
                        }
                    }
                    mir::AggregateKind::Closure(did, _) => {
                        o.push(("ak", s("closure")));
                        o.push(("closure", s(self.path(*did))));
                    }
                    other => {
                        o.push(("ak", s("other")));
                        o.push(("dbg", s(format!("{:?}", other))));
                    }
                }
                o.push(("ops", J::Arr(opsj)));
                J::Obj(o)
            }
            CopyForDeref(p) => J::Obj(vec![("k", s("use")), ("op", J::Obj(vec![("copy", self.place(body, *p))]))]),
            other => J::Obj(vec![("k", s("other")), ("dbg", s(format!("{:?}", other)))]),
        }
    }

    fn callee(&self, func: &mir::Operand<'tcx>, body: &mir::Body<'tcx>, env: TypingEnv<'tcx>) -> J {
        let fty = func.ty(&body.local_decls, self.tcx);
        if let ty::FnDef(did, args) = fty.kind() {
            let did = *did;
            let mut o: Vec<(&'static str, J)> = vec![
                ("path", s(self.path(did))),
                ("display", s(self.tcx.def_path_str_with_args(did, args))),
                ("args", J::Arr(args.iter().map(|a| s(format!("{}", a))).collect())),
                ("local", J::Bool(did.is_local())),
                ("name", s(self.tcx.item_name(did).to_string())),
            ];
            if let Some(tr) = self.tcx.trait_of_assoc(did) {
                o.push(("trait", s(self.path(tr))));
                if args.len() > 0 {
                    if let Some(t0) = args[0].as_type() {
                        o.push(("self_ty", self.ty(t0)));
                    }
                }
            }
            if let Some(imp) = self.tcx.impl_of_assoc(did) {
                let st = self.tcx.type_of(imp).instantiate_identity().skip_norm_wip();
                o.push(("impl_self", self.ty(st)));
            }
            if let DefKind::Ctor(of, _) = self.tcx.def_kind(did) {
                let parent = self.tcx.parent(did);
                o.push(("ctor", s(self.path(parent))));
                o.push(("ctor_of", s(format!("{:?}", of))));
                o.push(("ctor_name", s(self.tcx.item_name(parent).to_string())));
                if let rustc_hir::def::CtorOf::Variant = of {
                    let adt = self.tcx.parent(parent);
                    o.push(("ctor_adt", s(self.path(adt))));
                    let def = self.tcx.adt_def(adt);
                    let v = def.variant_with_id(parent);
                    o.push(("ctor_fields", J::Arr(v.fields.iter().map(|f| s(f.name.to_string())).collect())));
                } else {
                    o.push(("ctor_adt", s(self.path(parent))));
                }
            }
            match ty::Instance::try_resolve(self.tcx, env, did, args) {
                Ok(Some(inst)) => {
                    let rd = inst.def_id();
                    o.push(("rpath", s(self.path(rd))));
                    o.push(("rlocal", J::Bool(rd.is_local())));
                    o.push(("rargs", J::Arr(inst.args.iter().map(|a| s(format!("{}", a))).collect())));
                    o.push(("ikind", s(match inst.def {
                        ty::InstanceKind::Item(_) => "item".to_string(),
                        ref other => format!("{:?}", other).split('(').next().unwrap_or("?").to_string(),
                    })));
                    if let Some(imp) = self.tcx.impl_of_assoc(rd) {
                        let st = self.tcx.type_of(imp).instantiate_identity().skip_norm_wip();
                        o.push(("rimpl_self", self.ty(st)));
                        if let Some(tr) = self.tcx.impl_opt_trait_ref(imp) {
                            let tr = tr.instantiate_identity().skip_norm_wip();
                            o.push(("rimpl_trait", s(format!("{}", tr.print_only_trait_path()))));
                        }
                    }
                }
                _ => {}
            }
            J::Obj(o)
        } else {
            J::Obj(vec![("indirect", self.operand(body, func, env)), ("fn_ty", self.ty(fty))])
        }
    }

    fn terminator(&self, body: &mir::Body<'tcx>, t: &mir::Terminator<'tcx>, env: TypingEnv<'tcx>) -> J {
        use mir::TerminatorKind::*;
        let sp = self.span(t.source_info.span);
        let exp = J::Bool(t.source_info.span.from_expansion());
        let mut o: Vec<(&'static str, J)> = Vec::new();
        match &t.kind {
            Goto { target } => {
                o.push(("k", s("goto")));
                o.push(("t", J::Int(target.index() as i128)));
            }
            SwitchInt { discr, targets } => {
                o.push(("k", s("switch")));
                o.push(("op", self.operand(body, discr, env)));
                o.push(("op_ty", self.ty(discr.ty(&body.local_decls, self.tcx))));
                let mut vals = Vec::new();
                let mut tg = Vec::new();
                for (v, b) in targets.iter() {
                    vals.push(J::Int(v as i128));
                    tg.push(J::Int(b.index() as i128));
                }
                o.push(("vals", J::Arr(vals)));
                o.push(("targets", J::Arr(tg)));
                o.push(("otherwise", J::Int(targets.otherwise().index() as i128)));
            }
            Return => o.push(("k", s("return"))),
            Unreachable => o.push(("k", s("unreachable"))),
            UnwindResume => o.push(("k", s("resume"))),
            UnwindTerminate(_) => o.push(("k", s("abort"))),
            Drop { place, target, .. } => {
                o.push(("k", s("drop")));
                o.push(("place", self.place(body, *place)));
                o.push(("t", J::Int(target.index() as i128)));
            }
            Call { func, args, destination, target, .. } => {
                o.push(("k", s("call")));
                o.push(("callee", self.callee(func, body, env)));
                o.push(("args", J::Arr(args.iter().map(|a| self.operand(body, &a.node, env)).collect())));
                o.push(("dest", self.place(body, *destination)));
                o.push(("t", match target { Some(b) => J::Int(b.index() as i128), None => J::Null }));
            }
            Assert { cond, expected, msg, target, .. } => {
                o.push(("k", s("assert")));
                o.push(("cond", self.operand(body, cond, env)));
                o.push(("expected", J::Bool(*expected)));
                let m = match &**msg {
                    mir::AssertKind::BoundsCheck { len, index } => J::Obj(vec![
                        ("k", s("bounds")),
                        ("len", self.operand(body, len, env)),
                        ("index", self.operand(body, index, env)),
                    ]),
                    mir::AssertKind::Overflow(op, a, b) => J::Obj(vec![
                        ("k", s("overflow")),
                        ("op", s(format!("{:?}", op))),
                        ("a", self.operand(body, a, env)),
                        ("b", self.operand(body, b, env)),
                    ]),
                    other => J::Obj(vec![("k", s("other")), ("dbg", s(format!("{:?}", other)))]),
                };
                o.push(("msg", m));
                o.push(("t", J::Int(target.index() as i128)));
            }
            other => {
                o.push(("k", s("other")));
                o.push(("dbg", s(format!("{:?}", other))));
            }
        }
        o.push(("span", sp));
        o.push(("exp", exp));
        J::Obj(o)
    }

    fn body(&self, did: DefId) -> J {
        let tcx = self.tcx;
        let body = tcx.optimized_mir(did);
        let env = TypingEnv::post_analysis(tcx, did);
        let mut names: Vec<Option<String>> = vec![None; body.local_decls.len()];
        for vdi in body.var_debug_info.iter() {
            if let mir::VarDebugInfoContents::Place(p) = vdi.value {
                if p.projection.is_empty() {
                    names[p.local.index()] = Some(vdi.name.to_string());
                }
            }
        }
        let locals: Vec<J> = body
            .local_decls
            .iter_enumerated()
            .map(|(l, d)| {
                J::Obj(vec![
                    ("ty", self.ty(d.ty)),
                    ("name", match &names[l.index()] { Some(n) => s(n.clone()), None => J::Null }),
                    ("adt", match self.adt_info(d.ty) { Some(p) => s(p), None => J::Null }),
                ])
            })
            .collect();
        let mut blocks = Vec::new();
        for (_bb, data) in body.basic_blocks.iter_enumerated() {
            let mut stmts = Vec::new();
            for st in data.statements.iter() {
                let sp = self.span(st.source_info.span);
                let exp = J::Bool(st.source_info.span.from_expansion());
                match &st.kind {
                    mir::StatementKind::Assign(b) => {
                        let (p, rv) = &**b;
                        stmts.push(J::Obj(vec![
                            ("k", s("assign")),
                            ("place", self.place(body, *p)),
                            ("rv", self.rvalue(body, rv, env)),
                            ("span", sp),
                            ("exp", exp),
                        ]));
                    }
                    mir::StatementKind::StorageDead(l) => {
                        stmts.push(J::Obj(vec![("k", s("dead")), ("l", J::Int(l.index() as i128))]));
                    }
                    mir::StatementKind::StorageLive(_) | mir::StatementKind::Nop => {}
                    mir::StatementKind::SetDiscriminant { place, variant_index } => {
                        stmts.push(J::Obj(vec![
                            ("k", s("setdiscr")),
                            ("place", self.place(body, **place)),
                            ("vidx", J::Int(variant_index.index() as i128)),
                            ("span", sp),
                        ]));
                    }
                    mir::StatementKind::PlaceMention(_)
                    | mir::StatementKind::FakeRead(_)
                    | mir::StatementKind::AscribeUserType(..)
                    | mir::StatementKind::Coverage(_)
                    | mir::StatementKind::ConstEvalCounter
                    | mir::StatementKind::BackwardIncompatibleDropHint { .. } => {}
                    other => {
                        stmts.push(J::Obj(vec![("k", s("other")), ("dbg", s(format!("{:?}", other))), ("span", sp)]));
                    }
                }
            }
            let term = self.terminator(body, data.terminator(), env);
            blocks.push(J::Obj(vec![
                ("stmts", J::Arr(stmts)),
                ("term", term),
                ("cleanup", J::Bool(data.is_cleanup)),
            ]));
        }
        let kind = tcx.def_kind(did);
        let mut o: Vec<(&'static str, J)> = vec![
            ("path", s(self.path(did))),
            ("kind", s(format!("{:?}", kind))),
            ("span", self.span(tcx.def_span(did))),
            ("exp", J::Bool(tcx.def_span(did).from_expansion())),
            ("arg_count", J::Int(body.arg_count as i128)),
            ("locals", J::Arr(locals)),
            ("blocks", J::Arr(blocks)),
        ];
        let generics = tcx.generics_of(did);
        let mut gnames = Vec::new();
        let mut g = Some(generics);
        let mut stack = Vec::new();
        while let Some(gg) = g {
            stack.push(gg);
            g = gg.parent.map(|p| tcx.generics_of(p));
        }
        for gg in stack.iter().rev() {
            for p in gg.own_params.iter() {
                gnames.push(s(p.name.to_string()));
            }
        }
        o.push(("generics", J::Arr(gnames)));
        if matches!(kind, DefKind::Fn | DefKind::AssocFn) {
            let sig = tcx.fn_sig(did).instantiate_identity().skip_norm_wip().skip_binder();
            o.push(("inputs", J::Arr(sig.inputs().iter().map(|t| self.ty(*t)).collect())));
            o.push(("output", self.ty(sig.output())));
            o.push(("vis", s(format!("{:?}", tcx.visibility(did)))));
            o.push(("unsafe_fn", J::Bool(!sig.safety().is_safe())));
            o.push(("name", s(tcx.item_name(did).to_string())));
        }
        if let Some(imp) = tcx.impl_of_assoc(did) {
            let st = tcx.type_of(imp).instantiate_identity().skip_norm_wip();
            o.push(("impl_self", self.ty(st)));
            if let Some(tr) = tcx.impl_opt_trait_ref(imp) {
                let tr = tr.instantiate_identity().skip_norm_wip();
                o.push(("impl_trait", s(format!("{}", tr.print_only_trait_path()))));
                o.push(("impl_trait_path", s(self.path(tr.def_id))));
            }
            o.push(("impl_derived", J::Bool(tcx.is_automatically_derived(imp))));
            o.push(("impl_exp", J::Bool(tcx.def_span(imp).from_expansion())));
        }
        if let Some(tr) = tcx.trait_of_assoc(did) {
            o.push(("trait_default_of", s(self.path(tr))));
        }
        J::Obj(o)
    }

    fn dump(&self) -> J {
        let tcx = self.tcx;
        let mut consts = Vec::new();
        let mut adts = Vec::new();
        let mut impls = Vec::new();
        let mut traits = Vec::new();
        let mut fns = Vec::new();
        let mut statics = Vec::new();
        for ldid in tcx.hir_crate_items(()).definitions() {
            let did = ldid.to_def_id();
            let kind = tcx.def_kind(did);
            match kind {
                DefKind::Const { .. } | DefKind::AssocConst { .. } => {
                    let t = tcx.type_of(did).instantiate_identity().skip_norm_wip();
                    let env = TypingEnv::post_analysis(tcx, did);
                    let val = match tcx.const_eval_poly(did) {
                        Ok(v) => self.const_value(v, t, env),
                        Err(_) => J::Obj(vec![("ty", self.ty(t)), ("unevaluated", J::Bool(true))]),
                    };
                    consts.push(J::Obj(vec![
                        ("path", s(self.path(did))),
                        ("name", s(tcx.item_name(did).to_string())),
                        ("vis", s(format!("{:?}", tcx.visibility(did)))),
                        ("span", self.span(tcx.def_span(did))),
                        ("val", val),
                    ]));
                }
                DefKind::Static { .. } => {
                    statics.push(J::Obj(vec![("path", s(self.path(did))), ("span", self.span(tcx.def_span(did)))]));
                }
                DefKind::Struct | DefKind::Enum | DefKind::Union => {
                    let def = tcx.adt_def(did);
                    let mut variants = Vec::new();
                    let discrs: Vec<(rustc_abi::VariantIdx, i128)> = if def.is_enum() {
                        def.discriminants(tcx).map(|(i, d)| (i, d.val as i128)).collect()
                    } else {
                        Vec::new()
                    };
                    for (vi, v) in def.variants().iter_enumerated() {
                        let fields: Vec<J> = v
                            .fields
                            .iter()
                            .map(|f| {
                                J::Obj(vec![
                                    ("name", s(f.name.to_string())),
                                    ("ty", self.ty(tcx.type_of(f.did).instantiate_identity().skip_norm_wip())),
                                    ("vis", s(format!("{:?}", tcx.visibility(f.did)))),
                                ])
                            })
                            .collect();
                        let d = discrs.iter().find(|(i, _)| *i == vi).map(|(_, d)| J::Int(*d)).unwrap_or(J::Null);
                        variants.push(J::Obj(vec![
                            ("name", s(v.name.to_string())),
                            ("idx", J::Int(vi.index() as i128)),
                            ("discr", d),
                            ("fields", J::Arr(fields)),
                        ]));
                    }
                    let g = tcx.generics_of(did);
                    adts.push(J::Obj(vec![
                        ("path", s(self.path(did))),
                        ("name", s(tcx.item_name(did).to_string())),
                        ("kind", s(format!("{:?}", kind))),
                        ("vis", s(format!("{:?}", tcx.visibility(did)))),
                        ("span", self.span(tcx.def_span(did))),
                        ("generics", J::Arr(g.own_params.iter().map(|p| s(p.name.to_string())).collect())),
                        ("variants", J::Arr(variants)),
                    ]));
                }
                DefKind::Impl { .. } => {
                    let st = tcx.type_of(did).instantiate_identity().skip_norm_wip();
                    let ig = tcx.generics_of(did);
                    let mut o = vec![
                        ("generics", J::Arr(ig.own_params.iter().map(|p| s(p.name.to_string())).collect())),
                        ("self", self.ty(st)),
                        ("span", self.span(tcx.def_span(did))),
                        ("exp", J::Bool(tcx.def_span(did).from_expansion())),
                        ("derived", J::Bool(tcx.is_automatically_derived(did))),
                    ];
                    if let Some(tr) = tcx.impl_opt_trait_ref(did) {
                        let tr = tr.instantiate_identity().skip_norm_wip();
                        o.push(("trait", s(format!("{}", tr.print_only_trait_path()))));
                        o.push(("trait_path", s(self.path(tr.def_id))));
                        o.push(("trait_local", J::Bool(tr.def_id.is_local())));
                    }
                    let items: Vec<J> = tcx
                        .associated_items(did)
                        .in_definition_order()
                        .map(|it| {
                            J::Obj(vec![
                                ("name", s(it.name().to_string())),
                                ("path", s(self.path(it.def_id))),
                                ("kind", s(format!("{:?}", tcx.def_kind(it.def_id)))),
                            ])
                        })
                        .collect();
                    o.push(("items", J::Arr(items)));
                    impls.push(J::Obj(o));
                }
                DefKind::Trait => {
                    let mut provided = Vec::new();
                    let mut required = Vec::new();
                    for it in tcx.associated_items(did).in_definition_order() {
                        if it.defaultness(tcx).has_value() {
                            provided.push(s(it.name().to_string()));
                        } else {
                            required.push(s(it.name().to_string()));
                        }
                    }
                    traits.push(J::Obj(vec![
                        ("path", s(self.path(did))),
                        ("provided", J::Arr(provided)),
                        ("required", J::Arr(required)),
                    ]));
                }
                _ => {}
            }
        }
        for ldid in tcx.mir_keys(()).iter() {
            let did = ldid.to_def_id();
            match tcx.def_kind(did) {
                DefKind::Fn | DefKind::AssocFn | DefKind::Closure => {
                    fns.push(self.body(did));
                }
                _ => {}
            }
        }
        // unsafe blocks: count by scanning HIR bodies
        let mut unsafe_blocks = 0i128;
        {
            use rustc_hir::intravisit::{self, Visitor};
            struct V<'a> {
                n: &'a mut i128,
            }
            impl<'a, 'v> Visitor<'v> for V<'a> {
                fn visit_block(&mut self, b: &'v rustc_hir::Block<'v>) {
                    if let rustc_hir::BlockCheckMode::UnsafeBlock(rustc_hir::UnsafeSource::UserProvided) = b.rules {
                        if !b.span.from_expansion() {
                            *self.n += 1;
                        }
                    }
                    intravisit::walk_block(self, b);
                }
            }
            for ldid in tcx.hir_body_owners() {
                let body = tcx.hir_body_owned_by(ldid);
                let mut v = V { n: &mut unsafe_blocks };
                v.visit_body(body);
            }
        }
        J::Obj(vec![
            ("crate", s(tcx.crate_name(LOCAL_CRATE).to_string())),
            ("rustc", s(option_env!("CFG_VERSION").unwrap_or("nightly").to_string())),
            ("overflow_checks", J::Bool(tcx.sess.overflow_checks())),
            ("debug_assertions", J::Bool(tcx.sess.opts.debug_assertions)),
            ("is_test", J::Bool(tcx.sess.is_test_crate())),
            ("consts", J::Arr(consts)),
            ("statics", J::Arr(statics)),
            ("adts", J::Arr(adts)),
            ("impls", J::Arr(impls)),
            ("traits", J::Arr(traits)),
            ("fns", J::Arr(fns)),
            ("unsafe_blocks", J::Int(unsafe_blocks)),
        ])
    }
}

struct Cb;

impl Callbacks for Cb {
    fn after_analysis<'tcx>(&mut self, _c: &rustc_interface::interface::Compiler, tcx: TyCtxt<'tcx>) -> Compilation {
        let want = std::env::var("PPPFACTS_CRATE").unwrap_or_else(|_| "ppp".to_string());
        if tcx.crate_name(LOCAL_CRATE).as_str() == want {
            if let Ok(out) = std::env::var("PPPFACTS_OUT") {
                let cx = Cx { tcx };
                let j = cx.dump();
                let mut buf = String::new();
                j.write(&mut buf);
                buf.push('\n');
                std::fs::write(&out, buf).expect("pppfacts: cannot write facts file");
            }
        }
        Compilation::Continue
    }
}

fn main() {
    let mut args: Vec<String> = std::env::args().collect();
    if args.len() > 1 && (args[1].ends_with("rustc") || args[1].contains("rustc")) {
        args.remove(1);
    }
    rustc_driver::run_compiler(&args, &mut Cb);
}
