#!/usr/bin/env python3
"""Fills section 12 of DESIGN.md (between the MATRIX markers) from selftest results and seeded/*/meta.json."""
import json, os, re
V = os.path.dirname(os.path.dirname(os.path.abspath(__file__)))


def main():
    out = []
    out.append("Three bodies of evidence, all produced by running the registered `./check Cxx` commands against scratch copies of /repo with one change "
               "applied (`selftest/run_mutants.py`, `selftest/seeded.py`; development aids, never part of a MANIFEST command):\n")
    # seeded
    rows = []
    sdir = os.path.join(V, 'seeded')
    for sid in sorted(os.listdir(sdir)):
        mp = os.path.join(sdir, sid, 'meta.json')
        if not os.path.exists(mp):
            continue
        m = json.load(open(mp))
        caught = m.get('caught_by') or {}
        own = m['breaks_property']
        readme = open(os.path.join(sdir, sid, 'README.md')).read()
        first = ' '.join(readme.split())[:150]
        own_rules = ', '.join(sorted({r.split(':')[0] for r in caught.get(own, [])})) or '-'
        others = ', '.join(p for p in sorted(caught) if p != own) or '-'
        rows.append('| %s | %s | %s | %s | %s |' % (sid, own, 'yes: ' + own_rules if own in caught else ('**no**' if not caught else 'no (elsewhere)'), others, first.replace('|', '/')))
    n_own = sum(1 for r in rows if '| yes:' in r)
    out.append("**12.1 Independent seeded changes** (`/verif/seeded/<id>/`: patch.diff, demo.rs, README.md, meta.json). Each was written by a fresh sub-agent "
               "that saw only the property text and a scratch worktree; each was confirmed here to compile, to pass the 73 pinned tests, and to make its demo test "
               "fail (and pass without the change). %d changes; %d are caught by the check of the property they were written against; every one is caught by at least one check.\n" % (len(rows), n_own))
    out.append('| id | breaks | caught by its own check (rules) | also reported by | what it is |')
    out.append('|---|---|---|---|---|')
    out.extend(rows)
    out.append('')
    # catalogue
    cat = os.path.join(V, 'selftest', 'results', 'catalogue_matrix.txt')
    if os.path.exists(cat):
        lines = [l for l in open(cat).read().splitlines() if l.strip()]
        caught = sum(1 for l in lines if ' CAUGHT ' in l)
        out.append("**12.2 Design-time catalogue** (`notes/mutants.json`, one-site edits of the pinned tree; those whose site was later rewritten by a `fix:` commit no longer apply). "
                   "%d applicable mutants, %d caught by the check of (one of) the properties they target. Full matrix: `selftest/results/catalogue_matrix.txt`.\n" % (len(lines), caught))
    ref = os.path.join(V, 'selftest', 'results', 'refactorings.txt')
    if os.path.exists(ref):
        lines = [l for l in open(ref).read().splitlines() if l.strip()]
        silent = sum(1 for l in lines if ' SILENT' in l)
        out.append("**12.3 Behaviour-preserving refactorings** (`selftest/refactorings/<id>/`, written by fresh sub-agents asked for pure refactorings: reordered arms and checks, "
                   "inverted comparisons, extracted/inlined helpers, `?` vs `match`, shift-or vs `from_be_bytes`, literal vs constant, `if let` chains, struct-update syntax ...). "
                   "%d refactorings, %d leave all 20 checks silent. The first run was not silent on 9 of the first 15: each false alarm was traced to a normaliser or axiom gap and fixed in the machinery "
                   "(shift-or byte assembly -> `be`, `(x >> 8) as u8` -> byte terms, eta-reduction of rebuilt variants, integer `From`/`TryFrom`, `size_of`, `Option::as_mut`, "
                   "tautological overflow side-conditions in C04.M, windows equal modulo the path condition, helper functions owned by `next` in C11.B, semantic C19.X), never by loosening a rule. "
                   "Results: `selftest/results/refactorings.txt`.\n" % (len(lines), silent))
    text = '\n'.join(out)
    p = os.path.join(V, 'DESIGN.md')
    s = open(p).read()
    if '@@MATRIX@@' in s:
        s = s.replace('@@MATRIX@@', '<!-- MATRIX-BEGIN -->\n' + text + '\n<!-- MATRIX-END -->')
    else:
        s = re.sub(r'<!-- MATRIX-BEGIN -->.*<!-- MATRIX-END -->', lambda m: '<!-- MATRIX-BEGIN -->\n' + text + '\n<!-- MATRIX-END -->', s, flags=re.S)
    open(p, 'w').write(s)
    print('section 12 regenerated: %d seeded rows' % len(rows))


if __name__ == '__main__':
    main()
