"""E4: satisfiability / entailment for conjunctions of path-condition atoms (DESIGN.md App. C.3).

Linear integer constraints over atoms are decided by Fourier-Motzkin elimination over the rationals
with integer tightening of strict inequalities (sound for UNSAT answers); boolean atoms
(uninterpreted predicates, variant tests, sequence equalities) by polarity conflict.  No external
solver.  `sat` may answer True for an integer-infeasible system (incompleteness); it never answers
False for a feasible one."""
from fractions import Fraction
import terms as T

INT_RANGES = {
    'u8': (0, 2**8 - 1), 'u16': (0, 2**16 - 1), 'u32': (0, 2**32 - 1), 'u64': (0, 2**64 - 1),
    'u128': (0, 2**128 - 1), 'usize': (0, 2**64 - 1),
    'i8': (-2**7, 2**7 - 1), 'i16': (-2**15, 2**15 - 1), 'i32': (-2**31, 2**31 - 1), 'i64': (-2**63, 2**63 - 1),
    'i128': (-2**127, 2**127 - 1), 'isize': (-2**63, 2**63 - 1), 'bool': (0, 1), 'char': (0, 0x10FFFF),
}
LEN_MAX = 2**63 - 1


def atom_bounds(a):
    k = a[0]
    if k == 'len':
        return (0, LEN_MAX)
    if k in ('at', 'byte'):
        return (0, 255)
    if k in ('be', 'le'):
        return (0, 256 ** len(a[1]) - 1)
    if k == 'band' and a[2][0] == 'int' and a[2][1] >= 0:
        return (0, a[2][1])
    if k == 'trunc':
        return (0, 2 ** a[1] - 1)
    if k == 'shr' and a[2][0] == 'int' and a[2][1] >= 0:
        l, h = atom_bounds(a[1]) if a[1][0] != 'int' else (a[1][1], a[1][1])
        if l is not None and l >= 0 and h is not None:
            return (0, h >> a[2][1])
    if a in T.BOUNDS:
        return T.BOUNDS[a]
    ty = T.TYPES.get(a)
    if ty in INT_RANGES:
        return INT_RANGES[ty]
    return (None, None)


class Unsat(Exception):
    pass


def _flatten(atoms):
    """-> list of alternative conjunction lists (DNF) after pushing and/or/not inwards"""
    alts = [[]]
    for a in atoms:
        alts2 = []
        for conj in _dnf(a):
            for base in alts:
                alts2.append(base + conj)
        alts = alts2
        if len(alts) > 256:
            raise ValueError("too many disjuncts")
    return alts


def _dnf(a):
    k = a[0]
    if k == 'and':
        out = []
        for x in _dnf(a[1]):
            for y in _dnf(a[2]):
                out.append(x + y)
        return out
    if k == 'or':
        return _dnf(a[1]) + _dnf(a[2])
    if k == 'not':
        b = a[1]
        if b[0] == 'and':
            return _dnf(T.bnot(b[1])) + _dnf(T.bnot(b[2]))
        if b[0] == 'or':
            out = []
            for x in _dnf(T.bnot(b[1])):
                for y in _dnf(T.bnot(b[2])):
                    out.append(x + y)
            return out
        if b[0] == 'not':
            return _dnf(b[1])
    return [[a]]


def sat(atoms):
    try:
        alts = _flatten(atoms)
    except ValueError:
        return True
    return any(_sat_conj(c) for c in alts)


def entails(atoms, q):
    """atoms |= q ?"""
    return not sat(list(atoms) + [T.bnot(q)])


def _derived(conj):
    """facts implied by predicate atoms"""
    out = []
    for a in conj:
        if a[0] == 'call' and a[1] in ('starts_with', 'ends_with') and len(a[2]) == 2:
            out.append(T.ge0(T.sub(T.mk_len(a[2][0]), T.mk_len(a[2][1]))))
        if a[0] == 'eq':
            x, y = a[1], a[2]
            if _is_seq(x) or _is_seq(y):
                out.append(T.eq0(T.sub(T.mk_len(x), T.mk_len(y))))
        if a[0] == 'call' and a[1].startswith('parses:') and len(a[2]) == 1:
            out.append(T.ge0(T.sub(T.mk_len(a[2][0]), T.I(1))))       # the empty text denotes no number / address
        if a[0] == 'call' and a[1] == 'is_prefix_of_const' and len(a[2]) == 2:
            out.append(T.ge0(T.sub(T.mk_len(a[2][1]), T.mk_len(a[2][0]))))
    # bit slicing of an unsigned value:  x = 2^n * (x >> n) + (x & (2^n - 1))   and   x & ~(2^n - 1) = 2^n * (x >> n)
    seen = set()
    for a in conj:
        for t in T.subterms(a):
            if t[0] == 'shr' and t[2][0] == 'int' and t[1][0] != 'int' and t not in seen:
                seen.add(t)
                x, n = t[1], t[2][1]
                l, h = atom_bounds(x)
                if l is None or l < 0 or h is None or n <= 0 or (h + 1) & h:
                    continue
                lowmask = (1 << n) - 1
                himask = h & ~lowmask
                scaled = T.mul(T.I(1 << n), t) if hasattr(T, 'mul') else None
                if scaled is None:
                    continue
                out.append(T.eq0(T.sub(T.bitop('band', x, T.I(himask)), scaled)))
                out.append(T.eq0(T.sub(T.sub(x, scaled), T.bitop('band', x, T.I(lowmask)))))
    return [d for d in out if d != T.TRUE]


def _is_seq(x):
    return x[0] in T.SEQ_TAGS or x[0] in ('param', 'field', 'vfield', 'call', 'len')


_CONJ_CACHE = {}


def _sat_conj(conj):
    k = frozenset(conj)
    r = _CONJ_CACHE.get(k)
    if r is None:
        r = _CONJ_CACHE[k] = _sat_conj0(conj)
    return r


def _canon_atom(a):
    """one canonical form for 'a starts with the constant c':  eq(a[0..len c], c)  ==  starts_with(a, c)"""
    if a[0] == 'not':
        c = _canon_atom(a[1])
        return a if c is a[1] else ('not', c)
    if a[0] == 'eq':
        for x, y in ((a[1], a[2]), (a[2], a[1])):
            if x[0] == 'bytes' and y[0] == 'slice' and y[2] == T.I(0) and y[3] == T.I(len(x[1])):
                return ('call', 'starts_with', (y[1], x))
            # x == c[0..len(x)]  (c constant): c starts with x
            if y[0] == 'slice' and y[1][0] == 'bytes' and y[2] == T.I(0) and y[3] == T.mk_len(x) and x[0] != 'bytes':
                return ('call', 'starts_with', (y[1], x))
    return a


def _prefix_views(conj):
    """has_byte / first_byte of a prefix slice x[0..e] that provably contains x's first occurrence are those of x itself"""
    pos = set(a for a in conj if a[0] == 'call' and a[1] == 'has_byte')
    sub_ = {}
    for a in conj:
        for t in T.subterms(a):
            if t[0] == 'call' and t[1] in ('has_byte', 'first_byte') and t[2][0][0] == 'slice' and t[2][0][2] == T.I(0) and t not in sub_:
                sl, c = t[2]
                x, e = sl[1], sl[3]
                if ('call', 'has_byte', (x, c)) in pos:
                    d = T.sub(e, ('call', 'first_byte', (x, c)))
                    if d[0] == 'int' and d[1] >= 1:
                        sub_[t] = T.TRUE if t[1] == 'has_byte' else ('call', 'first_byte', (x, c))
    if not sub_:
        return conj
    out = []
    for a in conj:
        b = T.rebuild(a, sub_)
        if b[0] == 'not' and b[1][0] == 'int':
            b = T.bnot(b[1])
        out.append(b)
    return out


def _sat_conj0(conj):
    conj = [_canon_atom(a) for a in conj]
    conj = _prefix_views(conj)
    conj = list(conj) + _derived(conj)
    pos, negs = set(), set()
    ineqs = []      # (dict atom->Fraction, Fraction const) meaning sum + const >= 0
    _base = [-1, None]

    def fm(extra=()):
        # the base system is normalised once per growth step; queries add a few constraints to it
        if _base[0] != len(ineqs):
            _base[0], _base[1] = len(ineqs), _prep(ineqs)
        if _base[1] is False:
            return False
        if not extra:
            return _fm_cons(_base[1])
        ex = _prep(extra)
        if ex is False:
            return False
        return _fm_cons(_base[1] | ex)
    diseq = []      # lin terms != 0
    variants = {}   # term -> variant name
    notvariants = {}
    for a in conj:
        k = a[0]
        if k == 'int':
            if not a[1]:
                return False
            continue
        if k == 'ge0':
            c0, m = T.to_lin(a[1])
            ineqs.append((dict(m), c0))
        elif k == 'eq0':
            c0, m = T.to_lin(a[1])
            ineqs.append((dict(m), c0))
            ineqs.append(({x: -v for x, v in m.items()}, -c0))
        elif k == 'not' and a[1][0] == 'eq0':
            diseq.append(a[1][1])
        elif k == 'isvar':
            if variants.get(a[1], a[2]) != a[2]:
                return False
            variants[a[1]] = a[2]
        elif k == 'not' and a[1][0] == 'isvar':
            notvariants.setdefault(a[1][1], set()).add(a[1][2])
        elif k == 'not':
            negs.add(a[1])
        else:
            pos.add(a)
    if pos & negs:
        return False
    # two constant suffixes (prefixes) of one sequence must be compatible
    for name in ('ends_with', 'starts_with'):
        by = {}
        for a in pos:
            if a[0] == 'call' and a[1] == name and a[2][1][0] == 'bytes':
                by.setdefault(a[2][0], []).append(a[2][1][1])
        for seq, cs in by.items():
            for i in range(len(cs)):
                for j in range(i + 1, len(cs)):
                    x, y = cs[i], cs[j]
                    ok = (x.endswith(y) or y.endswith(x)) if name == 'ends_with' else (x.startswith(y) or y.startswith(x))
                    if not ok:
                        return False
    for t, v in variants.items():
        if v in notvariants.get(t, ()):
            return False
    # type bounds
    atoms = set()
    for m, _ in ineqs:
        atoms.update(m)
    for l in diseq:
        atoms.update(T.to_lin(l)[1])
    lo, hi = {}, {}
    for a in list(atoms):
        if a[0] == 'call' and a[1] == 'first_byte':
            # index of an element that exists: 0 <= i <= len - 1
            n = T.mk_len(a[2][0])
            c0, m = T.to_lin(T.sub(T.sub(n, a), T.I(1)))
            ineqs.append((dict(m), c0))
            ineqs.append(({a: 1}, 0))
            atoms.update(m)
    for a in atoms:
        l, h = atom_bounds(a)
        if l is not None:
            ineqs.append(({a: 1}, -l))
        if h is not None:
            ineqs.append(({a: -1}, h))
    if not fm():
        return False
    # token-layout facts of split/splitn (layout.py)
    import layout
    lin_atoms = [a for a in conj if a[0] in ('ge0', 'eq0') or (a[0] == 'not' and a[1][0] == 'eq0')]
    lf, alts = layout.facts(list(pos) + lin_atoms, list(negs))      # negs: atoms asserted false (without the 'not')
    if lf == 'unsat':
        return False
    if lf:
        for m, c in lf:
            for a in m:
                l, h = atom_bounds(a)
                if l is not None:
                    ineqs.append(({a: 1}, -l))
                if h is not None:
                    ineqs.append(({a: -1}, h))
        ineqs = ineqs + lf
        if not fm():
            return False
        for cases in alts:
            ok_case = None
            for case in cases:
                extra = []
                for m, c in case:
                    for a in m:
                        l, h = atom_bounds(a)
                        if l is not None:
                            extra.append(({a: 1}, -l))
                        if h is not None:
                            extra.append(({a: -1}, h))
                if fm(case + extra):
                    ok_case = case
                    break
            if ok_case is None:
                return False
            # several alternative-sets are checked independently (sound: each is necessary)
    # x starts with the constant c1, x is no longer than c1, c2 starts with c1  ==>  x = c1 is a prefix of c2 (and x == c1)
    for a in negs:
        c2 = x = None
        exact = False
        if a[0] == 'call' and a[1] == 'starts_with' and a[2][0][0] == 'bytes' and a[2][1][0] != 'bytes':
            c2, x = a[2][0][1], a[2][1]
        elif a[0] == 'eq' and a[1][0] == 'bytes' and a[2][0] != 'bytes':
            c2, x, exact = a[1][1], a[2], True
        elif a[0] == 'eq' and a[2][0] == 'bytes' and a[1][0] != 'bytes':
            c2, x, exact = a[2][1], a[1], True
        if c2 is not None:
            for b in pos:
                if b[0] == 'call' and b[1] == 'starts_with' and b[2][0] == x and b[2][1][0] == 'bytes' and \
                        (c2 == b[2][1][1] if exact else c2.startswith(b[2][1][1])):
                    c0, m = T.to_lin(T.sub(T.mk_len(x), T.I(len(b[2][1][1]) + 1)))
                    if not fm([(dict(m), c0)]):       # len(x) >= len(c1) + 1 impossible
                        return False
    # the constant c2 starts with x, x is at least as long as c1, c2 starts with c1  ==>  x starts with c1
    for a in negs:
        if a[0] == 'call' and a[1] == 'starts_with' and a[2][1][0] == 'bytes' and a[2][0][0] != 'bytes':
            x, c1 = a[2][0], a[2][1][1]
            for b in pos:
                if b[0] == 'call' and b[1] == 'starts_with' and b[2][1] == x and b[2][0][0] == 'bytes' and b[2][0][1].startswith(c1):
                    c0, m = T.to_lin(T.sub(T.I(len(c1) - 1), T.mk_len(x)))
                    if not fm([(dict(m), c0)]):       # len(x) <= len(c1) - 1 impossible
                        return False
    # bytewise view of constant prefixes: x starts with c  <=>  len(x) >= len(c) and x[i] = c[i] for i < len(c)
    if any(a[0] == 'call' and a[1] == 'starts_with' for a in pos | negs):
        byte_eq, byte_ne = {}, {}
        for a in conj:
            neg = a[0] == 'not'
            b = a[1] if neg else a
            if b[0] != 'eq0':
                continue
            c0, m = T.to_lin(b[1])
            if len(m) == 1:
                (at, coef), = m.items()
                if at[0] == 'at' and at[2][0] == 'int' and coef in (1, -1) and (-c0) % coef == 0:
                    val = (-c0) // coef
                    if neg:
                        byte_ne.setdefault((at[1], at[2][1]), set()).add(val)
                    else:
                        byte_eq[(at[1], at[2][1])] = val

        def len_at_least(x, k):        # entailed: len(x) >= k
            c0, m = T.to_lin(T.sub(T.I(k - 1), T.mk_len(x)))
            return not fm([(dict(m), c0)])

        def len_at_most(x, k):         # entailed: len(x) <= k
            c0, m = T.to_lin(T.sub(T.mk_len(x), T.I(k + 1)))
            return not fm([(dict(m), c0)])
        if True:
            for a in pos:
                if not (byte_eq or byte_ne):
                    break
                if a[0] == 'call' and a[1] == 'starts_with':
                    x, c = a[2]
                    if c[0] == 'bytes' and x[0] != 'bytes':             # x starts with the constant c
                        for i, cb in enumerate(c[1]):
                            if byte_eq.get((x, i), cb) != cb or cb in byte_ne.get((x, i), ()):
                                return False
                    elif x[0] == 'bytes' and c[0] != 'bytes':           # the constant x starts with c (c is short)
                        for (y, i), val in byte_eq.items():
                            if y == c and (i >= len(x[1]) or x[1][i] != val) and len_at_least(c, i + 1):
                                return False
                        for (y, i), vals in byte_ne.items():
                            if y == c and i < len(x[1]) and x[1][i] in vals and len_at_least(c, i + 1):
                                return False
            for a in negs:
                if a[0] == 'call' and a[1] == 'starts_with':
                    x, c = a[2]
                    if c[0] == 'bytes' and x[0] != 'bytes':
                        if all(byte_eq.get((x, i)) == cb for i, cb in enumerate(c[1])) and len_at_least(x, len(c[1])):
                            return False
                    elif x[0] == 'bytes' and c[0] != 'bytes':
                        for k in range(len(x[1]) + 1):
                            if len_at_most(c, k):
                                if len_at_least(c, k) and all(byte_eq.get((c, i)) == x[1][i] for i in range(k)):
                                    return False
                                break
    # disequalities: unsat if the remaining constraints force lin == 0
    for l in diseq:
        c0, m = T.to_lin(l)
        if not m:
            if c0 == 0:
                return False
            continue
        up = fm([(dict(m), c0 - 1)])                       # lin >= 1 possible?
        dn = fm([({x: -v for x, v in m.items()}, -c0 - 1)])  # lin <= -1 possible?
        if not up and not dn:
            return False
    # several disequalities on one single-atom form: tighten a finite interval
    by_atom = {}
    for l in diseq:
        c0, m = T.to_lin(l)
        if len(m) == 1:
            (a, c), = m.items()
            if (-c0) % c == 0:
                by_atom.setdefault(a, set()).add((-c0) // c)
    for a, excl in by_atom.items():
        if len(excl) < 2:
            continue
        l, h = _range_of(a, ineqs)
        if l is None or h is None or h - l > 4096:
            continue
        if all(v in excl for v in range(l, h + 1)):
            return False
    return True


def _range_of(a, ineqs):
    """integer interval of atom a under ineqs using only single-atom constraints"""
    l, h = atom_bounds(a)
    for m, c in ineqs:
        if len(m) == 1 and a in m:
            k = m[a]
            if k > 0:      # k*a + c >= 0 -> a >= -c/k
                v = -(c // k) if c % k == 0 else -(c // k)
                import math
                v = math.ceil(Fraction(-c, k))
                l = v if l is None else max(l, v)
            else:
                import math
                v = math.floor(Fraction(c, -k))
                h = v if h is None else min(h, v)
    return l, h


_VID = {}
_FM_CACHE = {}


def _vid(a):
    v = _VID.get(a)
    if v is None:
        v = _VID[a] = len(_VID)
    return v


def _norm(m, c):
    """integer constraint sum(m)+c >= 0 -> canonical hashable (items tuple, c) with gcd 1"""
    from math import gcd
    g = 0
    for k in m.values():
        g = gcd(g, abs(k))
    if g > 1:
        m = {v: k // g for v, k in m.items()}
        c = c // g          # floor: integer tightening
    return (tuple(sorted(m.items())), c)


def _prep(ineqs):
    """normalised constraint set of ineqs, or False when a constant constraint already fails"""
    cons = set()
    for m, c in ineqs:
        mm = {}
        for a, k in m.items():
            if k != 0:
                mm[_vid(a)] = int(k)
        if not mm:
            if c < 0:
                return False
            continue
        cons.add(_norm(mm, int(c)))
    return cons


def _fm_cons(cons):
    key = frozenset(cons)
    r = _FM_CACHE.get(key)
    if r is None:
        r = _fm_core(cons)
        _FM_CACHE[key] = r
    return r


def _fm_sat(ineqs):
    """Fourier-Motzkin with integer coefficients (integer tightening by gcd). ineqs: list of
    (dict atom->int, int const) meaning sum + const >= 0.  False = certainly infeasible."""
    cons = set()
    for m, c in ineqs:
        mm = {}
        for a, k in m.items():
            if k != 0:
                mm[_vid(a)] = int(k)
        if not mm:
            if c < 0:
                return False
            continue
        cons.add(_norm(mm, int(c)))
    key = frozenset(cons)
    r = _FM_CACHE.get(key)
    if r is None:
        r = _fm_core(cons)
        _FM_CACHE[key] = r
    return r


def _fm_core(cons):
    cons = set(cons)
    guard = 0
    while cons:
        # keep only the tightest constant per coefficient vector
        best = {}
        for items, c in cons:
            if items not in best or c < best[items]:
                best[items] = c
        cons = set(best.items())
        counts = {}
        for items, c in cons:
            for v, k in items:
                p, n = counts.get(v, (0, 0))
                counts[v] = (p + 1, n) if k > 0 else (p, n + 1)
        var = min(counts, key=lambda v: (counts[v][0] * counts[v][1], v))
        pos, neg, new = [], [], set()
        for items, c in cons:
            k = 0
            for v, kk in items:
                if v == var:
                    k = kk
                    break
            if k > 0:
                pos.append((items, c, k))
            elif k < 0:
                neg.append((items, c, k))
            else:
                new.add((items, c))
        for ip, cp, kp in pos:
            for in_, cn, kn in neg:
                m = {}
                for v, k in ip:
                    if v != var:
                        m[v] = m.get(v, 0) + k * (-kn)
                for v, k in in_:
                    if v != var:
                        m[v] = m.get(v, 0) + k * kp
                m = {v: k for v, k in m.items() if k != 0}
                c = cp * (-kn) + cn * kp
                if not m:
                    if c < 0:
                        return False
                    continue
                new.add(_norm(m, c))
        cons = new
        guard += 1
        if guard > 64 or len(cons) > 4000:
            return True     # give up: "maybe satisfiable"
    return True


def bounds_of(atoms, t):
    """(lo, hi) integer bounds of numeric term t under atoms, by bisection-free FM probing of
    a few candidate constants; used for reporting only."""
    return None
