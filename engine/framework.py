"""Check framework: instances, floors, violations (keyed, fail closed), known findings, evidence."""
import hashlib, json, os, sys, time
import terms as T

VERIF = os.path.dirname(os.path.dirname(os.path.abspath(__file__)))
KNOWN = os.path.join(VERIF, 'known_findings.json')

TRUSTED_COMMON = [
    "rustc 1.97.0-nightly: type checking, MIR construction (mir-opt-level=0), constant evaluation, callee resolution",
    "tools/pppfacts (fact extractor) and engine/{terms,solver,sumeval}.py (normaliser, Fourier-Motzkin entailment, MIR value-flow)",
]


class Run:
    def __init__(self, pid, tier, level):
        self.pid = pid
        self.tier = tier
        self.level = level
        self.t0 = time.time()
        self.instances = []      # dict(rule, key, ok, ...)
        self.violations = []     # dict(key, rule, kind, ...)
        self.floors = {}
        self.samples = []
        self.axioms_used = set()
        self.assumptions = []
        self.explanation = ''
        self.functions = set()
        self.extra = {}
        self.bodies_in_facts = 0
        self.fixtures_fired = 0
        self.fixtures_expected = 0

    # ---------------------------------------------------------------- recording
    def inst(self, rule, key, ok, expected=None, found=None, site=None, entry=None, nontrivial=True, kind='mismatch',
             note=None):
        """one rule instance evaluated; a failing instance is a violation keyed by (rule, entry, key, found)"""
        rec = {'rule': rule, 'key': key, 'ok': bool(ok), 'nontrivial': nontrivial}
        if entry: rec['entry'] = entry
        if site: rec['site'] = site
        if expected is not None: rec['expected'] = expected if isinstance(expected, str) else T.short(expected)
        if found is not None: rec['found'] = found if isinstance(found, str) else T.short(found)
        if note: rec['note'] = note
        self.instances.append(rec)
        if entry: self.functions.add(entry)
        if not ok:
            self.violation(rule, key, kind, entry=entry, site=site, expected=rec.get('expected'), found=rec.get('found'), note=note)
        return ok

    def violation(self, rule, key, kind, entry=None, site=None, expected=None, found=None, note=None):
        vkey = '%s/%s/%s/%s/%s' % (self.pid, rule, entry or '-', key, kind)
        self.violations.append({'vkey': vkey, 'rule': rule, 'kind': kind, 'entry': entry, 'site': site,
                                'expected': expected, 'found': found, 'note': note, 'key': key})

    def floor(self, name, count, minimum):
        """fail closed when a rule matched fewer instances than were counted by hand on the pinned tree"""
        self.floors[name] = {'count': count, 'floor': minimum}
        if count < minimum:
            self.violation('floor', name, 'anchor-missing', note='%s: %d instances, floor %d' % (name, count, minimum))

    def require(self, cond, rule, key, note):
        if not cond:
            self.violation(rule, key, 'anchor-missing', note=note)
        return cond

    def sample(self, obj):
        if len(self.samples) < 12:
            self.samples.append(obj)

    # ---------------------------------------------------------------- finishing
    def finish(self):
        known = {'findings': [], 'fixed': []}
        if os.path.exists(KNOWN):
            known = json.load(open(KNOWN))
        known_keys = {f['key']: f for f in known.get('findings', []) if f.get('property') == self.pid}
        seen = set()
        unlisted = []
        printed_known = 0
        for v in self.violations:
            if v['vkey'] in seen:
                continue
            seen.add(v['vkey'])
            if v['vkey'] in known_keys:
                print('KNOWN-FINDING: property=%s %s' % (self.pid, known_keys[v['vkey']]['what']))
                printed_known += 1
            else:
                unlisted.append(v)
        rdir = os.path.join(os.environ.get('PPP_REPORTS', os.path.join(VERIF, 'reports')), self.pid)
        os.makedirs(rdir, exist_ok=True)
        for k, v in enumerate(unlisted):
            h = hashlib.sha1(v['vkey'].encode()).hexdigest()[:16]
            path = os.path.join(rdir, h + '.json')
            with open(path, 'w') as fh:
                json.dump(v, fh, indent=1, default=str)
            print('VIOLATION property=%s replay=%s' % (self.pid, os.path.relpath(path, VERIF)))
            print('  rule=%s kind=%s entry=%s site=%s' % (v['rule'], v['kind'], v['entry'], v['site']))
            if k >= 15:
                continue        # details of further violations are in their replay files
            if v.get('expected') is not None or v.get('found') is not None:
                print('  expected: %s' % str(v.get('expected'))[:600])
                print('  found:    %s' % str(v.get('found'))[:600])
            if v.get('note'):
                print('  note: %s' % str(v['note'])[:600])
        self.write_evidence(len(unlisted), printed_known)
        n_ok = sum(1 for i in self.instances if i['ok'])
        print('%s: %d rule instances evaluated, %d ok, %d violations (%d known), %.1fs'
              % (self.pid, len(self.instances), n_ok, len(unlisted), printed_known, time.time() - self.t0))
        return 1 if unlisted else 0

    def write_evidence(self, n_viol, n_known):
        total = len(self.instances)
        okc = sum(1 for i in self.instances if i['ok'])
        distinct = len({(i['rule'], i.get('entry'), i['key']) for i in self.instances if i['nontrivial']})
        samples = self.samples or [i for i in self.instances[:8]]
        cov = {
            'evaluations': total,
            'distinct_nontrivial': distinct,
            'rule': 'one evaluation per rule instance (a reference row x extracted outcome, an obligation, a table entry, a '
                    'field slot); distinct = distinct (rule, entry point, instance key); non-trivial = the verdict depended on '
                    'at least one term extracted from MIR (not a bare constant comparison)',
            'samples': samples,
            'functions_analysed': sorted(self.functions),
            'bodies_in_facts': self.bodies_in_facts,
            'floors': self.floors,
            'fixtures_fired': self.fixtures_fired,
            'fixtures_expected': self.fixtures_expected,
            'known_findings_printed': n_known,
            'explanation': self.explanation,
        }
        cov.update(self.extra)
        if self.level == 'proof':
            cov['obligations'] = total
            cov['discharged'] = okc
            cov['checker_cmd'] = './check %s --tier %s' % (self.pid, self.tier)
            cov['trusted_base'] = TRUSTED_COMMON + sorted(self.axioms_used)
            cov['exhaustive'] = True
        ev = {
            'property_id': self.pid, 'tier': self.tier, 'seed': int(os.environ.get('VERIF_SEED', '0') or 0),
            'level': self.level, 'coverage': cov,
            'assumptions': list(dict.fromkeys(self.assumptions)) + ['std axioms of DESIGN.md 4.3 (those used are listed in coverage.trusted_base / axioms_used)'],
            'wall_s': round(time.time() - self.t0, 2), 'violations': n_viol,
        }
        if self.level != 'proof':
            cov['axioms_used'] = sorted(self.axioms_used)
        edir = os.environ.get('PPP_EVIDENCE', os.path.join(VERIF, 'evidence'))
        os.makedirs(edir, exist_ok=True)
        with open(os.path.join(edir, self.pid + '.json'), 'w') as fh:
            json.dump(ev, fh, indent=1, default=str)


# ------------------------------------------------------------------------------------------
# pattern matching of extracted terms against reference patterns

ANY = ('any',)


def match(found, pat, binds=None):
    """structural match; ('any',) matches anything; ('bind', name) binds/compares; sequences are
    compared in canonical element form"""
    if binds is None:
        binds = {}
    if pat == ANY:
        return True
    if pat[0] == 'not_err_variants':
        # anything but Err(one of the named variants)
        if found[0] == 'adt' and found[2] == 'Err' and found[4] and found[4][0][0] == 'adt':
            return found[4][0][2] not in pat[1]
        return found[0] == 'adt'
    if pat[0] == 'bind':
        if pat[1] in binds:
            return equal(binds[pat[1]], found)
        binds[pat[1]] = found
        return True
    if found == pat:
        return True
    if found[0] == 'adt' and pat[0] == 'adt':
        if found[1] != pat[1] or found[2] != pat[2]:
            return False
        fn, pn = T.adt_names(found), T.adt_names(pat)
        if sorted(fn) != sorted(pn):
            return False
        fd = dict(zip(fn, found[4]))
        return all(match(fd[n], p, binds) for n, p in zip(pn, pat[4]))
    if found[0] == 'tuple' and pat[0] == 'tuple' and len(found[1]) == len(pat[1]):
        return all(match(f, p, binds) for f, p in zip(found[1], pat[1]))
    if found[0] == 'call' and pat[0] == 'call' and found[1] == pat[1] and len(found[2]) == len(pat[2]):
        return all(match(f, p, binds) for f, p in zip(found[2], pat[2]))
    return equal(found, pat)


def equal(a, b):
    if a == b:
        return True
    if is_seq(a) or is_seq(b):
        return T.canon_seq(a) == T.canon_seq(b)
    return False


def is_seq(x):
    return x[0] in T.SEQ_TAGS


def pc_text(pc, limit=6):
    return ' & '.join(T.short(a) for a in pc[:limit]) + (' & ...' if len(pc) > limit else '')
