"""E1 front-end: run the pppfacts rustc driver over a crate's *current* working tree and load
the facts file.  Never cached: every call uses a fresh CARGO_TARGET_DIR outside /repo and /verif
and removes it afterwards."""
import json, os, shutil, subprocess, tempfile, time

VERIF = os.path.dirname(os.path.dirname(os.path.abspath(__file__)))
DRIVER = os.path.join(VERIF, "tools", "pppfacts", "target", "release", "pppfacts")
REPO = os.environ.get("PPP_REPO", "/repo")

CONFIGS = {
    # name -> extra RUSTFLAGS
    "dev": "",
    "rel": "-C overflow-checks=off -C debug-assertions=off",
}


class FactsError(Exception):
    pass


PROFILE_TOKENS = ("debug_assertions", "overflow_checks", "debug_assert")


def profile_sensitive(crate_dir=None):
    """Escalation trigger for the quick tier (never a verdict): does the crate's source mention a cfg that differs between the dev and
    release profiles?  If so the MIR of the two configurations can differ by more than the overflow assertions (which the dev analysis
    already reports as panics), and the quick tier analyses both.  Returns the list of (file, token) mentions."""
    crate_dir = crate_dir or REPO
    hits = []
    for root, dirs, files in os.walk(os.path.join(crate_dir, "src")):
        for f in sorted(files):
            if f.endswith(".rs"):
                try:
                    text = open(os.path.join(root, f), errors="replace").read()
                except OSError:
                    continue
                for t in PROFILE_TOKENS:
                    if t in text:
                        hits.append((os.path.relpath(os.path.join(root, f), crate_dir), t))
    try:
        toml = open(os.path.join(crate_dir, "Cargo.toml")).read()
        for t in ("overflow-checks", "debug-assertions"):
            if t in toml:
                hits.append(("Cargo.toml", t))
    except OSError:
        pass
    return hits


def sysroot():
    return subprocess.check_output(["rustc", "+nightly", "--print", "sysroot"], text=True).strip()


def build_facts(crate_dir=REPO, crate="ppp", cfg="dev", keep=None):
    """Returns (facts dict, seconds).  Raises FactsError when the driver did not produce facts."""
    if not os.path.exists(DRIVER):
        raise FactsError("driver not built: run ./setup.sh (%s missing)" % DRIVER)
    t0 = time.time()
    tmp = tempfile.mkdtemp(prefix="pppfacts-")
    try:
        out = os.path.join(tmp, "facts.json")
        env = dict(os.environ)
        env["LD_LIBRARY_PATH"] = os.path.join(sysroot(), "lib") + ":" + env.get("LD_LIBRARY_PATH", "")
        env["RUSTFLAGS"] = ("-Zmir-opt-level=0 -Awarnings " + CONFIGS[cfg]).strip()
        env["RUSTC_WORKSPACE_WRAPPER"] = DRIVER
        env["PPPFACTS_OUT"] = out
        env["PPPFACTS_CRATE"] = crate
        env["CARGO_TARGET_DIR"] = os.path.join(tmp, "tgt")
        env["CARGO_NET_OFFLINE"] = "true"
        env.pop("RUSTC_WRAPPER", None)
        p = subprocess.run(
            ["cargo", "+nightly", "check", "--offline", "--lib", "--quiet"],
            cwd=crate_dir, env=env, stdout=subprocess.PIPE, stderr=subprocess.STDOUT, text=True)
        if p.returncode != 0:
            raise FactsError("cargo check failed for %s (%s):\n%s" % (crate_dir, cfg, p.stdout[-4000:]))
        if not os.path.exists(out):
            raise FactsError("driver produced no facts file for crate %s in %s" % (crate, crate_dir))
        with open(out) as fh:
            facts = json.load(fh)
        if keep:
            shutil.copy(out, keep)
        if facts.get("crate") != crate:
            raise FactsError("facts file is for crate %r, expected %r" % (facts.get("crate"), crate))
        facts["cfg"] = cfg
        return facts, time.time() - t0
    finally:
        shutil.rmtree(tmp, ignore_errors=True)


class Facts:
    """Indexed view of a facts file."""

    def __init__(self, raw):
        self.raw = raw
        self.cfg = raw.get("cfg", "dev")
        self.fns = {f["path"]: f for f in raw["fns"]}
        self.consts = {c["path"]: c for c in raw["consts"]}
        self.adts = {a["path"]: a for a in raw["adts"]}
        self.impls = raw["impls"]
        self.traits = {t["path"]: t for t in raw["traits"]}
        self.unsafe_blocks = raw["unsafe_blocks"]
        # (trait_path, self_ty string) -> impl
        self.impl_index = {}
        for im in self.impls:
            if "trait_path" in im:
                self.impl_index.setdefault((im["trait_path"], im["self"]), []).append(im)

    def ctor_index(self):
        """constructor path (struct or enum variant used as a function) -> (adt, variant, field names)"""
        if not hasattr(self, '_ctor'):
            self._ctor = {}
            for a in self.raw['adts']:
                for v in a['variants']:
                    names = [f['name'] for f in v['fields']]
                    if a['kind'] == 'Enum':
                        self._ctor[a['path'] + '::' + v['name']] = (a['path'], v['name'], names)
                    else:
                        self._ctor[a['path']] = (a['path'], v['name'], names)
        return self._ctor

    def fn(self, path):
        return self.fns.get(path)

    def hand_written(self):
        return [f for f in self.raw["fns"] if not f["exp"] and not f.get("impl_derived")]

    def adt(self, path):
        return self.adts.get(path)

    def variant_discr(self, adt_path):
        return {v["name"]: v["discr"] for v in self.adts[adt_path]["variants"]}

    def const_val(self, path):
        c = self.consts.get(path)
        return None if c is None else c["val"]
