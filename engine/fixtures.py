"""E7: control fixtures that must fire on every run (DESIGN.md section 8)."""
import os
import facts as F, sumeval, axioms, solver, terms as T

VERIF = os.path.dirname(os.path.dirname(os.path.abspath(__file__)))
_cache = {}


def _facts():
    if 'fx' not in _cache:
        raw, _ = F.build_facts(crate_dir=os.path.join(VERIF, 'fixtures'), crate='pppfix', cfg='dev')
        _cache['fx'] = F.Facts(raw)
    return _cache['fx']


def _run(name, **kw):
    fx = _facts()
    ev = sumeval.Ev(fx, axioms)
    outs = ev.run_entry(name, **kw)
    return ev, outs


def _undischarged(ev):
    bad = []
    for ob in ev.all_obls:
        if ob['kind'] == 'char_boundary':
            from rules import C03
            if C03.boundary_ok(ob) is None:
                bad.append(ob)
        elif ob['cond'] != T.TRUE and not solver.entails(ob['pc'], ob['cond']):
            bad.append(ob)
    return bad


def F1():
    ev, _ = _run('f1_unguarded_index')
    ev2, _ = _run('f1_guarded_index')
    return len(_undischarged(ev)) > 0 and len(_undischarged(ev2)) == 0


def F2():
    ev, _ = _run('f2_str_slice_past_find')
    ev2, _ = _run('f2_str_slice_after_find')
    return any(o['kind'] == 'char_boundary' for o in _undischarged(ev)) and len(_undischarged(ev2)) == 0


def F3():
    _, o1 = _run('f3_le_length')
    _, o2 = _run('f3_be_length')
    b = ('param', 0, 'b')
    be = T.mk_be((T.mk_at(b, T.I(0)), T.mk_at(b, T.I(1))))
    return len(o1) == 1 and len(o2) == 1 and o2[0]['ret'] == be and o1[0]['ret'] != be


def F4():
    from rules import C03
    ev, _ = _run('f4_non_advancing_loop')

    class Dummy:
        def __init__(self): self.bad = 0
        def inst(self, rule, key, ok, **kw):
            if not ok: self.bad += 1
            return ok
    d = Dummy()
    n = C03.loops_ok(None, d, ev, 'fixture')
    return n >= 1 and d.bad >= 1


def F5():
    _, o1 = _run('f5_truncating_cast')
    _, o2 = _run('f5_guarded_cast')
    lossy = lambda outs: any(nt[0] == 'lossy-cast' for o in outs for nt in o['notes'])
    return lossy(o1) and not lossy(o2)


def F6():
    ev, _ = _run('f6_unknown_callee')
    return len(ev.unknown_callees) >= 1


def F7():
    _, outs = _run('<Pair as std::fmt::Display>::fmt')
    if len(outs) != 1:
        return False
    o = outs[0]
    st = [o['store'][loc] for v, loc in o['params'] if loc is not None]
    if not st or st[0][0] != 'adt':
        return False
    out = T.adt_field(st[0], 'out')
    s, f = ('param', 0, 'self'), ('param', 1, 'f')
    exp = T.mk_concat([('call', 'fmt_out', (f,)), ('bytes', b'AB '), ('call', 'fmt:display', (('field', s, '0'),)), ('bytes', b' CD '),
                       ('call', 'fmt:display', (('field', s, '1'),)), ('bytes', b'\r\n')])
    return T.canon_seq(out) == T.canon_seq(exp)


def F8():
    def writes_on_refusal(name):
        _, outs = _run(name)
        w = ('param', 0, 'w')
        v = ('param', 1, 'value')
        for o in outs:
            if solver.entails(o['pc'], T.cmp('Gt', T.mk_len(v), T.I(65535))):
                st = [o['store'][loc] for x, loc in o['params'] if loc is not None][0]
                if st != w:
                    return True
        return False
    return writes_on_refusal('f8_write_then_check') and not writes_on_refusal('f8_check_then_write')


ALL = {'F1': F1, 'F2': F2, 'F3': F3, 'F4': F4, 'F5': F5, 'F6': F6, 'F7': F7, 'F8': F8}
WHAT = {'F1': 'unguarded index is an undischarged obligation, guarded twin is discharged',
        'F2': 'str slice at find+2 is an unproved char boundary, find+1 twin is proved',
        'F3': 'little-endian length decode differs from the big-endian reference, big-endian twin equals it',
        'F4': 'a loop that does not advance an iterator is rejected by the loop idiom rule',
        'F5': 'an unguarded usize->u16 cast is noted as lossy, the guarded twin is not',
        'F6': 'a std callee without an axiom is reported as unknown',
        'F7': "a format template with known pieces decodes to exactly those pieces (rustc's fmt encoding as expected)",
        'F8': 'an encoder that writes before its size guard leaves the writer changed on refusal, the correct twin does not'}


def require(ctx, R, names):
    """run the named control fixtures; a fixture that does not fire is a violation (an analysis that cannot see a planted defect proves nothing)"""
    for n in names:
        R.fixtures_expected += 1
        try:
            ok = ALL[n]()
            why = ''
        except Exception as e:      # noqa
            ok, why = False, 'fixture raised %r' % (e,)
        if ok:
            R.fixtures_fired += 1
        else:
            R.violation('fixture', n, 'control-silent', note='control fixture %s did not behave as planted (%s) %s' % (n, WHAT[n], why))
