from rules.common import *
from spec import v2parse, tables


def v2_entry(ctx):
    p = ctx.method(tables.V2_HEADER, 'try_from', "std::convert::TryFrom<&[u8]>")
    ev, outs = ctx.entry(p)
    return p, ev, outs


def run_v2_table(ctx, R, pid, rule):
    p, ev, outs = v2_entry(ctx)
    if not outs:
        R.require(False, rule, 'v2 try_from', 'no summary of the v2 parser')
        return None, None, None
    inp = P(ctx, p, 0)
    opaque_free(R, rule, p, outs)
    rows = v2parse.rows_for(inp, pid)
    check_rows(R, rule, p, outs, rows)
    if pid in ('C02', 'C04', 'C17'):
        no_panic_gaps(R, rule, ev, p)
    return p, inp, outs
