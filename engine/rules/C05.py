"""C05 — streaming: every proper prefix of an accepted header is reported incomplete."""
from rules.v2common import *
from spec import classify
from rules import C06

LEVEL = 'other'
FIXTURES = ['F3', 'F6']


def run(ctx, R):
    R.explanation = ('C05.N flag algebra (default is_complete = !is_incomplete, never overridden; Ok is complete; HeaderResult delegates) and '
                     'C05.C classification of all 28 error variants are decided from the impl summaries for every value. C05.V2: in the v2 '
                     'decision table every input that is a proper prefix of an accepted header (signature prefix when shorter than 12, intact '
                     'signature when shorter than 16, valid controls and len < 16+L afterwards) resolves to Incomplete / Partial, and no byte is '
                     'read before the guard that proves it present (obligations of C03). C05.A: the auto-detector consults the text parser only '
                     'when the v2 result is terminal. C05.V1: necessary conditions on the v1 parser only (presence checks before validation, '
                     'partial-keyword tests, open-token rule); not decided: that every prefix of every accepted v1 line is incomplete.')
    classify.flag_algebra(ctx, R, 'C05.N')
    classify.classification(ctx, R, 'C05.C')
    run_v2_table(ctx, R, 'C05', 'C05.V2')
    C06.auto_table(ctx, R, 'C05.A')
    n = len([i for i in R.instances if i['rule'] == 'C05.C'])
    R.floor('error variants classified', n, 28)
    try:
        from rules import v1model
        v1model.c05_v1(ctx, R)
        v1model.v1_no_panic(ctx, R, 'C05.V1')
    except ImportError:
        R.assumptions.append('C05.V1 (v1 presence-before-validation, partial-keyword and open-token rules) not decided by this build')
