"""Structural model of the v1 (text) parser shared by C01, C04.W, C05.V1, C06.X, C08, C12.V1, C15, C16, C18.

The two public entry points are analysed with their common callee (the "field parser": the one crate-local function
both call with the header window) abstracted, which gives the *window* rules; the field parser is then analysed on a
symbolic window, which gives the *token* rules.  Token terms are tok(split(text, limit, seps), k) from the tokenising
axioms (DESIGN.md 4.3): consecutive substrings of the text, each followed by exactly one separator, at most `limit`."""
from rules.common import *
from spec import tables

PE = tables.V1_ERR
BPE = tables.V1_BERR
H1, A1 = tables.V1_HEADER, tables.V1_ADDR
CR = I(tables.V1_CR)


def perr(variant, *payload):
    return ERR(adtl(PE, variant, [(str(i), p) for i, p in enumerate(payload)]))


class V1:
    """lazily computed facts about the v1 parser"""

    def __init__(self, ctx, R):
        self.ctx, self.R = ctx, R
        self.p_str = ctx.method(H1, 'try_from', 'std::convert::TryFrom<&str>')
        self.p_bytes = ctx.method(H1, 'try_from', 'std::convert::TryFrom<&[u8]>')
        self.fp = None
        self._fp_outs = None
        if self.p_str and self.p_bytes:
            self.fp = self.field_parser()

    def field_parser(self):
        """the crate-local fn(&str) that the text entry point hands the window to; the byte entry point must reach it too
        (directly, or by delegating to the text entry point)"""
        def local_callees(p):
            # callees of the function and of the closures defined inside it
            out = set()
            bodies = [f for q, f in self.ctx.fx.fns.items() if q == p or q.startswith(p + '::{closure')]
            for fn in bodies:
                for b in fn['blocks']:
                    t = b['term']
                    if t['k'] == 'call' and 'callee' in t and t['callee'].get('rlocal') and t['callee'].get('rpath') in self.ctx.fx.fns:
                        out.add(t['callee']['rpath'])
                    for a in (t.get('args') or []) if t['k'] == 'call' else []:
                        c = a.get('const') if isinstance(a, dict) else None
                        if c and c.get('fn') in self.ctx.fx.fns:
                            out.add(c['fn'])          # a crate-local fn item passed as a function value
            return out

        def is_fp(path):
            c = self.ctx.fx.fns[path]
            return c['arg_count'] == 1 and strip(c['inputs'][0]) == '&str' and not c.get('impl_derived') and c['kind'] == 'Fn'
        direct = {c for c in local_callees(self.p_str) if is_fp(c)}
        if len(direct) != 1:
            self.R.violation('v1.anchor', 'field-parser', 'anchor-missing',
                             note='expected exactly one crate-local fn(&str) called by the v1 TryFrom<&str> impl, found %s' % sorted(direct))
            return None
        fp = next(iter(direct))
        # reachability from the byte entry point (bounded closure over local callees)
        seen, work = set(), [self.p_bytes]
        while work:
            x = work.pop()
            if x in seen:
                continue
            seen.add(x)
            work.extend(local_callees(x))
        if fp not in seen:
            self.R.violation('v1.anchor', 'field-parser', 'anchor-missing', note='the v1 TryFrom<&[u8]> impl never reaches the field parser %s' % fp)
            return None
        return fp

    def window_outs(self, which):
        p = self.p_str if which == 'str' else self.p_bytes
        if p is None or self.fp is None:
            return None, None, None
        ev, outs = self.ctx.entry(p, abstract={self.fp: 'fields'})
        return p, ev, outs

    def fp_outs(self):
        if self._fp_outs is None and self.fp is not None:
            ev, outs = self.ctx.entry(self.fp)
            self._fp_outs = (ev, outs)
        return self._fp_outs if self._fp_outs else (None, None)

    def text(self):
        return P(self.ctx, self.fp, 0)


_cache = {}


def model(ctx, R):
    k = id(ctx)
    if k not in _cache:
        _cache.clear()
        _cache[k] = V1(ctx, R)
    m = _cache[k]
    m.R = R
    return m


# ------------------------------------------------------------------------------------------
# window rules

def window_rows(inp, which, fields):
    """reference behaviour of an entry point in terms of fields(window)"""
    n = T.mk_len(inp)
    has = ('call', 'has_byte', (inp, CR))
    first = ('call', 'first_byte', (inp, CR))
    w = T.add(first, I(2))
    win_a = T.mk_slice(inp, I(0), w)
    rows = []

    def result(win):
        r = ('call', 'abs:fields', (win,))
        if which == 'str':
            return [([], r)]
        # bytes: from_utf8 first; parse errors wrapped in BinaryParseError::Parse
        return [([('call', 'is_utf8', (win,))], 'wrap'), ([T.bnot(('call', 'is_utf8', (win,)))], ERR(adtl(BPE, 'InvalidUtf8', [('0', ANY)])))]
    cases = [
        ('cr-with-following-byte', [has, T.cmp('Le', w, n)], win_a),
        ('cr-is-last-byte', [has, T.cmp('Gt', w, n)], inp),
        ('no-cr-below-limit', [T.bnot(has), T.cmp('Lt', n, I(tables.V1_MAX))], inp),
    ]
    for name, cond, win in cases:
        for extra, ret in result(win):
            rows.append({'name': name + ('' if not extra else '/utf8' if extra[0][0] != 'not' else '/not-utf8'), 'cond': cond + extra, 'ret': ret, 'win': win})
    too_long = perr('HeaderTooLong') if which == 'str' else ERR(adtl(BPE, 'Parse', [('0', adtl(PE, 'HeaderTooLong', []))]))
    rows.append({'name': 'no-cr-at-limit', 'cond': [T.bnot(has), T.cmp('Ge', n, I(tables.V1_MAX))], 'ret': too_long, 'win': None})
    return rows


def window_equal(pc, w1, w2):
    """two window terms denote the same bytes under pc (same base, provably equal bounds)"""
    if w1 == w2:
        return True

    def parts(w):
        if w[0] == 'slice':
            return w[1], w[2], w[3]
        return w, I(0), T.mk_len(w)
    b1, lo1, hi1 = parts(w1)
    b2, lo2, hi2 = parts(w2)
    return b1 == b2 and solver.entails(pc, T.eq0(T.sub(lo1, lo2))) and solver.entails(pc, T.eq0(T.sub(hi1, hi2)))


def fields_call(t):
    for x in T.subterms(t):
        if x[0] == 'call' and x[1] == 'abs:fields':
            return x
    return None


def check_window(ctx, R, rule, which, only=None):
    m = model(ctx, R)
    p, ev, outs = m.window_outs(which)
    if not outs:
        R.require(False, rule, 'window/' + which, 'no summary of the v1 %s entry point' % which)
        return 0
    inp = P(ctx, p, 0)
    rows = window_rows(inp, which, None)
    n = 0
    for r in rows:
        if only and not any(r['name'].startswith(o) for o in only):
            continue
        hit = 0
        for o0 in outs:
            if not solver.sat(list(o0['pc']) + r['cond']):
                continue
            # a prefix slice that provably covers the whole input is the input: write both sides the same way before comparing
            both = list(o0['pc']) + r['cond']
            sub_ = {}
            for t0 in both + [o0['ret']] + ([r['win']] if r['win'] is not None else []):
                for t in T.subterms(t0):
                    if t[0] == 'slice' and t[1] == inp and t[2] == I(0) and t not in sub_ and solver.entails(both, T.eq0(T.sub(t[3], T.mk_len(inp)))):
                        sub_[t] = inp
            o = o0
            rr = r
            if sub_:
                o = dict(o0, pc=[T.rebuild(a, sub_) for a in o0['pc']], ret=T.rebuild(o0['ret'], sub_))
                rr = dict(r, cond=[T.rebuild(a, sub_) for a in r['cond']], win=T.rebuild(r['win'], sub_) if r['win'] is not None else None,
                          ret=r['ret'] if isinstance(r['ret'], str) else T.rebuild(r['ret'], sub_))
                if not solver.sat(list(o['pc']) + rr['cond']):
                    continue
            r_saved, r = r, rr
            hit += 1
            found = o['ret']
            fc = fields_call(found)
            if fc is not None and r['win'] is not None and fc[2][0] != r['win'] and window_equal(list(o['pc']) + r['cond'], fc[2][0], r['win']):
                # the same window written differently (e.g. input instead of input[..len]): compare modulo that
                found = T.rebuild(found, {fc: ('call', 'abs:fields', (r['win'],))})
            if r['ret'] == 'wrap':
                # bytes entry: fields(window) with errors wrapped: result is map_err(Parse) of abs:fields(win)
                call = ('call', 'abs:fields', (r['win'],))
                ok = (solver.sat(list(o['pc']) + [('isvar', call, 'Ok')]) and match(found, OK(('vfield', call, 'Ok', '0')))) or \
                     (solver.sat(list(o['pc']) + [('isvar', call, 'Err')]) and match(found, ERR(adtl(BPE, 'Parse', [('0', ('vfield', call, 'Err', '0'))])))) or \
                     found == call
                exp = 'fields(%s) with errors wrapped in BinaryParseError::Parse' % T.short(r['win'])
            elif which == 'str' and r['win'] is not None and not match(found, r['ret']):
                # text entry may first check that the cut is a char boundary (total slicing): Err when it is not
                call = r['ret']
                bnd = ('call', 'is_char_boundary', (inp, T.add(('call', 'first_byte', (inp, CR)), I(2))))
                ok = not solver.sat(list(o['pc']) + [bnd]) and match(found, ERR(ANY))
                exp = T.short(call) + ' (or Err when the cut is not a char boundary)'
            else:
                ok = match(found, r['ret'])
                exp = T.short(r['ret'])
            R.inst(rule, 'window/%s/%s' % (which, r['name']), ok, expected=exp, found=found, entry=p, note=None if ok else 'under ' + pc_text(o['pc'], 8))
            n += 1
            if ok and hit == 1 and len(R.samples) < 8:
                R.sample({'rule': rule, 'entry': p, 'case': r['name'], 'expected': exp, 'found': T.short(found)})
            r = r_saved
        R.inst(rule, 'window/%s/%s/realised' % (which, r['name']), hit > 0, expected='some outcome', found=str(hit), entry=p, nontrivial=False)
    # every outcome is covered by a row
    for o in outs:
        if not any(solver.sat(list(o['pc']) + r['cond']) for r in rows):
            R.inst(rule, 'window/%s/unspecified-outcome' % which, False, expected='covered by the window table', found=o['ret'], entry=p, kind='unprovable')
    return n


# ------------------------------------------------------------------------------------------
# token-level facts of the field parser

def split_sources(outs):
    srcs = set()
    for o in outs:
        for t0 in [o['ret']] + list(o['pc']):
            for t in T.subterms(t0):
                if t[0] == 'call' and t[1] == 'split':
                    srcs.add(t)
    return srcs


def tokens_in(t0):
    return {t for t in T.subterms(t0) if t[0] == 'call' and t[1] == 'tok'}


def ok_outcomes(outs):
    return [o for o in outs if match(o['ret'], OK(ANY))]


def variant_of(o):
    """address kind of an accepting outcome"""
    h = T.adt_field(o['ret'], '0')
    a = T.adt_field(h, 'addresses') if h[0] == 'adt' else None
    return a[2] if a is not None and a[0] == 'adt' else None


def c01_rules(ctx, R):
    m = model(ctx, R)
    ev, outs = m.fp_outs()
    if not outs:
        R.require(False, 'C01', 'field parser', 'no summary')
        return
    fp = m.fp
    text = m.text()
    opaque_free(R, 'C01.T', fp, outs)
    # ---- C01.K constants
    want = {'PROTOCOL_PREFIX': tables.V1_PREFIX, 'PROTOCOL_SUFFIX': tables.V1_SUFFIX, 'TCP4': tables.V1_TCP4, 'TCP6': tables.V1_TCP6,
            'UNKNOWN': tables.V1_UNKNOWN}
    for name, val in want.items():
        c = ctx.fx.consts.get('v1::model::' + name)
        found = bytes.fromhex(c['val']['slice_bytes']) if c and 'slice_bytes' in c['val'] else None
        R.inst('C01.K', 'const/' + name, found == val, expected=repr(val), found=repr(found), entry='v1::model::' + name)
    c = ctx.fx.consts.get('v1::model::SEPARATOR')
    R.inst('C01.K', 'const/SEPARATOR', c is not None and c['val'].get('int') == tables.V1_SEP, expected=str(tables.V1_SEP), found=str(c['val'].get('int') if c else None), entry='v1::model::SEPARATOR')
    # ---- C01.W limit inside the field parser
    n = T.mk_len(text)
    for o in outs:
        if solver.sat(list(o['pc']) + [T.eq0(n)]):
            R.inst('C01.W', 'empty-window-is-incomplete', match(o['ret'], perr('MissingPrefix')), expected=perr('MissingPrefix'), found=o['ret'], entry=fp)
        if solver.sat(list(o['pc']) + [T.cmp('Gt', n, I(tables.V1_MAX))]):
            R.inst('C01.W', 'window-over-107-rejected', match(o['ret'], perr('HeaderTooLong')), expected=perr('HeaderTooLong'), found=o['ret'], entry=fp)
        if match(o['ret'], perr('HeaderTooLong')):
            R.inst('C01.W', 'limit-is-exactly-107', solver.entails(o['pc'], T.cmp('Gt', n, I(tables.V1_MAX))), expected='only when len > 107', found=pc_text(o['pc'], 4), entry=fp)
    # ---- C01.T tokeniser
    srcs = split_sources(outs)
    R.inst('C01.T', 'single-tokeniser', len(srcs) == 1, expected='1 split over the window', found=str([T.short(s) for s in srcs]), entry=fp)
    src = next(iter(srcs)) if len(srcs) == 1 else None
    if src is not None:
        stext, limit, seps = src[2]
        R.inst('C01.T', 'tokeniser-over-the-whole-window', stext == text, expected=text, found=stext, entry=fp)
        ok = seps[0] == 'bytes' and set(seps[1]) <= {tables.V1_SEP, tables.V1_CR} and tables.V1_SEP in set(seps[1])
        R.inst('C01.T', 'separators-subset-of-SP-CR', ok, expected='subset of {SP, CR} containing SP', found=seps, entry=fp)
        # tokens reach std parsers / comparisons unmodified: every from_str/parses argument is a bare token
        bad = []
        for o in outs:
            for t0 in [o['ret']] + list(o['pc']):
                for t in T.subterms(t0):
                    if t[0] == 'call' and (t[1].startswith('from_str:') or t[1].startswith('parses:')):
                        if not (t[2][0][0] == 'call' and t[2][0][1] == 'tok'):
                            bad.append(T.short(t))
        R.inst('C01.T', 'tokens-parsed-unmodified', not bad, expected='std parsers applied to bare tokens (no trim / case mapping / sub-slicing)', found=str(bad[:3]), entry=fp)
    oks = ok_outcomes(outs)
    R.floor('accepting outcomes of the field parser', len(oks), 3)
    # ---- C01.P provenance
    slots = 0
    for o in oks:
        h = T.adt_field(o['ret'], '0')
        var = variant_of(o)
        if src is None or h[0] != 'adt':
            continue
        hdr = T.adt_field(h, 'header')
        R.inst('C01.P', 'header-is-the-window-borrowed', match(hdr, borrowed(text)), expected=borrowed(text), found=hdr, entry=fp)
        slots += 1
        tk = lambda k: ('call', 'tok', (src, I(k)))
        kw = {'Tcp4': tables.V1_TCP4, 'Tcp6': tables.V1_TCP6, 'Unknown': tables.V1_UNKNOWN}.get(var)
        R.inst('C01.P', 'keyword-token-0-is-PROXY/' + str(var), T.eq(('bytes', tables.V1_PREFIX), tk(0)) in o['pc'], expected='tok0 == "PROXY"', found=pc_text(o['pc'], 6), entry=fp)
        R.inst('C01.P', 'keyword-token-1-matches-kind/' + str(var), kw is not None and T.eq(('bytes', kw), tk(1)) in o['pc'], expected='tok1 == %r' % kw, found=pc_text(o['pc'], 8), entry=fp)
        slots += 2
        a = T.adt_field(h, 'addresses')
        if var in ('Tcp4', 'Tcp6'):
            ipty, aty = ('ip::IPv4', 'std::net::Ipv4Addr') if var == 'Tcp4' else ('ip::IPv6', 'std::net::Ipv6Addr')
            exp = adtl(A1, var, [('0', adtl(ipty, ipty.split('::')[-1], [
                ('source_address', ('call', 'from_str:' + aty, (tk(2),))), ('source_port', ('call', 'from_str:u16', (tk(4),))),
                ('destination_address', ('call', 'from_str:' + aty, (tk(3),))), ('destination_port', ('call', 'from_str:u16', (tk(5),)))]))])
            R.inst('C01.P', 'fields-from-tokens-2..5/' + var, match(a, exp), expected=exp, found=a, entry=fp)
            slots += 4
            if len(R.samples) < 8:
                R.sample({'rule': 'C01.P', 'kind': var, 'expected': T.short(exp), 'found': T.short(a)})
            # ---- C01.G guards on lenient std parsers
            for role, k in (('source', 4), ('destination', 5)):
                t = tk(k)
                lead0 = solver.sat(list(o['pc']) + [('call', 'starts_with', (t, ('bytes', b'0'))), T.bnot(T.eq(t, ('bytes', b'0')))])
                R.inst('C01.G', 'leading-zero-rejected/%s-port/%s' % (role, var), not lead0, expected='accepting path excludes a leading 0 (other than "0")',
                       found='no such guard dominates Ok' if lead0 else 'guarded', entry=fp)
                plus = solver.sat(list(o['pc']) + [('call', 'starts_with', (t, ('bytes', b'+')))])
                R.inst('C01.G', 'sign-rejected/%s-port/%s' % (role, var), not plus, expected='accepting path excludes a leading + (u16::from_str accepts it)',
                       found='no such guard dominates Ok' if plus else 'guarded', entry=fp, kind='lenient-std-parser')
        elif var == 'Unknown':
            R.inst('C01.P', 'unknown-has-no-addresses', match(a, adtl(A1, 'Unknown', [])), expected='Addresses::Unknown', found=a, entry=fp)
            slots += 1
        # ---- C01.S CRLF established
        crlf = ('call', 'ends_with', (text, ('bytes', tables.V1_SUFFIX)))
        R.inst('C01.S', 'accept-requires-CRLF-suffix/' + str(var), crlf in o['pc'] or solver.entails(o['pc'], crlf), expected='ends_with(window, "\\r\\n") dominates Ok',
               found='not established under: ' + pc_text(o['pc'], 6) if crlf not in o['pc'] else 'established', entry=fp, kind='suffix-not-established')
    R.floor('provenance slots', slots, 12)
    # ---- C01.Y sibling symmetry TCP4 / TCP6
    def norm(o, var):
        def ren(s):
            return (s.replace('Ipv6Addr', 'IpvXAddr').replace('Ipv4Addr', 'IpvXAddr').replace('IPv6', 'IPvX').replace('IPv4', 'IPvX')
                    .replace('Tcp6', 'TcpX').replace('Tcp4', 'TcpX').replace("b'TCP6'", 'KW').replace("b'TCP4'", 'KW'))
        return (tuple(sorted(ren(T.short(a)) for a in o['pc'])), ren(T.short(o['ret'])))
    if src is not None:
        tk1 = ('call', 'tok', (src, I(1)))
        arms = {}
        for var, kw in (('Tcp4', tables.V1_TCP4), ('Tcp6', tables.V1_TCP6)):
            sel = [o for o in outs if T.eq(('bytes', kw), tk1) in o['pc']]
            other = tables.V1_TCP6 if var == 'Tcp4' else tables.V1_TCP4
            arms[var] = sorted(set((tuple(x for x in norm(o, var)[0] if 'KW' not in x or '!' not in x), norm(o, var)[1]) for o in sel))
        R.inst('C01.Y', 'tcp4-and-tcp6-arms-are-symmetric', arms['Tcp4'] == arms['Tcp6'] and len(arms['Tcp4']) > 0, expected='%d outcomes equal up to renaming' % len(arms['Tcp4']),
               found='%d vs %d outcomes' % (len(arms['Tcp4']), len(arms['Tcp6'])), entry=fp)


# ------------------------------------------------------------------------------------------
# blame / presence / open-token rules

ROLE = {'InvalidSourceAddress': 2, 'InvalidDestinationAddress': 3, 'InvalidSourcePort': 4, 'InvalidDestinationPort': 5}
MISSING = {'MissingSourceAddress': 2, 'MissingDestinationAddress': 3, 'MissingSourcePort': 4, 'MissingDestinationPort': 5}


def err_variant(o):
    r = o['ret']
    if r[0] == 'adt' and r[2] == 'Err':
        e = T.adt_field(r, '0')
        if e[0] == 'adt':
            return e[2]
    return None


def token_ordinals(atom):
    out = set()
    for t in tokens_in(atom):
        k = t[2][1]
        out.add(k[1] if k[0] == 'int' else 'mu')
    return out


def is_validation(atom):
    """atoms produced by validating a token's content"""
    a = atom[1] if atom[0] == 'not' else atom
    if a[0] == 'call' and (a[1].startswith('parses:') or a[1] in ('starts_with', 'ends_with')):
        return True
    if a[0] == 'eq':
        return True
    return False


def is_field_validation(atom):
    """validation of an address / port field (std parser or the leading-zero / sign guards), as opposed to keyword and line-ending comparisons"""
    a = atom[1] if atom[0] == 'not' else atom
    if a[0] == 'call' and (a[1].startswith('parses:') or a[1] in ('starts_with',)):
        return not (a[1] == 'starts_with' and a[2][0][0] == 'bytes')       # KEYWORD.starts_with(token) is a keyword test
    if a[0] == 'eq' and any(x[0] == 'bytes' and x[1] == b'0' for x in (a[1], a[2])):
        return True
    return False


def c12_v1(ctx, R):
    m = model(ctx, R)
    ev, outs = m.fp_outs()
    if not outs:
        return
    fp = m.fp
    n = 0
    for o in outs:
        v = err_variant(o)
        if v in ROLE:
            # semantic blame: on this path the blamed field is invalid and every field before it (in line order) is valid - however the
            # parser orders its checks (lazily field by field, or all fields eagerly and the first failure reported)
            k = ROLE[v]
            srcs = split_sources([o])
            var = 'Tcp4' if T.eq(('bytes', tables.V1_TCP4), ('call', 'tok', (next(iter(srcs)), I(1)))) in o['pc'] else 'Tcp6' if srcs else None
            if len(srcs) != 1:
                R.inst('C12.V1', 'blame/%s<-token%d' % (v, k), False, expected='one tokeniser on the path', found=str(len(srcs)), entry=fp, kind='unprovable')
                continue
            A = accept_conditions(next(iter(srcs)), m.text(), var)
            fieldc = {2: ['source-address-parses'], 3: ['destination-address-parses'],
                      4: ['source-port-no-leading-zero', 'source-port-no-sign', 'source-port-parses'],
                      5: ['destination-port-no-leading-zero', 'destination-port-no-sign', 'destination-port-parses']}
            blamed_invalid = not solver.sat(list(o['pc']) + [A[c] for c in fieldc[k]])
            earlier_valid = all(solver.entails(o['pc'], A[c]) for j in range(2, k) for c in fieldc[j])
            ok = blamed_invalid and earlier_valid
            R.inst('C12.V1', 'blame/%s<-token%d' % (v, k), ok, expected='field %d invalid and fields 2..%d valid on this path' % (k, k - 1),
                   found='blamed field invalid: %s; earlier fields valid: %s; under %s' % (blamed_invalid, earlier_valid, pc_text(o['pc'][-6:], 6)), entry=fp)
            n += 1
        elif v == 'InvalidPrefix':
            val = [a for a in o['pc'] if is_validation(a) and token_ordinals(a)]
            ok = all(token_ordinals(a) == {0} for a in val) and len(val) > 0
            R.inst('C12.V1', 'blame/InvalidPrefix<-token0', ok, expected='only token 0 examined', found=pc_text(val, 4), entry=fp)
            n += 1
        elif v == 'InvalidProtocol':
            val = [a for a in o['pc'] if is_validation(a) and token_ordinals(a)]
            ok = len(val) > 0 and token_ordinals(val[-1]) == {1}
            R.inst('C12.V1', 'blame/InvalidProtocol<-token1', ok, expected='decisive check on token 1', found=T.short(val[-1]) if val else 'none', entry=fp)
            n += 1
        elif v == 'InvalidSuffix':
            # decisive atom is about the final token / the window's suffix, after all fields validated
            val = [a for a in o['pc'] if is_validation(a)]
            last = val[-1] if val else None
            ok = last is not None and (not token_ordinals(last) or all((k == 'mu' or k >= 2) for k in token_ordinals(last)))
            R.inst('C12.V1', 'blame/InvalidSuffix<-line-ending', ok, expected='decisive check on the line ending', found=T.short(last) if last else 'none', entry=fp)
            n += 1
    R.floor('v1 blame instances', n, 9)
    # variants of the limit / utf8 errors are attributed by the window rules
    check_window(ctx, R, 'C12.V1', 'bytes', only=['no-cr-at-limit', 'cr-with-following-byte/not-utf8'])
    check_window(ctx, R, 'C12.V1', 'str', only=['no-cr-at-limit'])


def c05_v1(ctx, R):
    m = model(ctx, R)
    ev, outs = m.fp_outs()
    if not outs:
        return
    fp = m.fp
    srcs = split_sources(outs)
    if len(srcs) != 1:
        R.inst('C05.V1', 'single-tokeniser', False, expected='1', found=str(len(srcs)), entry=fp)
        return
    src = next(iter(srcs))
    text = m.text()
    tk = lambda k: ('call', 'tok', (src, I(k)))
    has = lambda k: ('call', 'has_tok', (src, I(k)))
    n = 0
    for o in outs:
        v = err_variant(o)
        # (i) presence before validation: any validation of tokens 2..5 implies all of them are present
        val_ords = set()
        for a in o['pc']:
            if is_field_validation(a):
                val_ords |= {k for k in token_ordinals(a) if k != 'mu' and k >= 2}
        if val_ords:
            ok = all(has(k) in o['pc'] for k in range(2, 6))
            R.inst('C05.V1', 'presence-checks-precede-validation', ok, expected='tokens 2..5 all observed before any is validated',
                   found='validated %s under %s' % (sorted(val_ords), pc_text(o['pc'], 6)), entry=fp)
            n += 1
        if v in MISSING:
            k = MISSING[v]
            ok = (T.bnot(has(k)) in o['pc'] or (T.eq0(T.mk_len(tk(k))) in o['pc'] and T.bnot(has(k + 1)) in o['pc'])) and not val_ords
            R.inst('C05.V1', 'missing-token-%d-reported-before-validation' % k, ok, expected='%s exactly when token %d is absent (or empty and last), nothing validated yet' % (v, k),
                   found=pc_text(o['pc'], 8), entry=fp)
            n += 1
        # (iii) open-token rule: a terminal blame on token j needs token j closed or an empty-and-last guard
        if v in ROLE or v == 'InvalidProtocol':
            j = ROLE.get(v, 1)
            open_empty = solver.sat(list(o['pc']) + [T.eq0(T.mk_len(tk(j))), T.bnot(has(j + 1))])
            R.inst('C05.V1', 'open-token-rule/%s' % v, not open_empty,
                   expected='terminal error on token %d only if a later token was seen or the empty-and-last case is reported as Missing*' % j,
                   found='an empty, still-open token %d reaches %s' % (j, v) if open_empty else 'guarded', entry=fp, kind='open-token')
            n += 1
    # (ii) partial keywords: no terminal keyword error for a proper prefix that ends the window
    for variant, j, kws in (('InvalidPrefix', 0, [tables.V1_PREFIX]), ('InvalidProtocol', 1, [tables.V1_TCP4, tables.V1_TCP6, tables.V1_UNKNOWN])):
        prefixes = sorted({kw[:i] for kw in kws for i in range(1, len(kw))})
        for o in outs:
            if err_variant(o) != variant:
                continue
            for pfx in prefixes:
                sub_ = {tk(j): ('bytes', pfx)}
                pc2 = [fold_preds(T.rebuild(a, sub_)) for a in o['pc']]
                pc2.append(('call', 'ends_with', (text, ('bytes', pfx))))
                if j == 1:
                    pc2.append(T.bnot(has(2)))
                bad = T.FALSE not in pc2 and solver.sat([a for a in pc2 if a != T.TRUE])
                if bad:
                    R.inst('C05.V1', 'partial-keyword/%s/%r' % (variant, pfx), False, expected='a window ending in the keyword prefix %r is incomplete' % pfx,
                           found='%s reachable' % variant, entry=fp, kind='partial-keyword')
        R.inst('C05.V1', 'partial-keyword/%s' % variant, True, expected='checked %d proper prefixes' % len(prefixes), found='ok unless reported above', entry=fp, nontrivial=False)
        n += len(prefixes)
    # (iv) absent final token -> MissingNewLine
    for o in outs:
        # (only outcomes past the protocol dispatch: a parser that tokenises up front knows the token count before it looks at the keywords;
        #  for UNKNOWN the line feed token may sit anywhere, so the rule applies when no token was found to be the line feed)
        fixed_layout = any(T.eq(('bytes', kw), tk(1)) in o['pc'] for kw in (tables.V1_TCP4, tables.V1_TCP6))
        unknown = T.eq(('bytes', tables.V1_UNKNOWN), tk(1)) in o['pc']
        lf_found = any(T.eq(('bytes', b'\n'), tk(j)) in o['pc'] for j in range(2, 7))
        dispatched = fixed_layout or (unknown and not lf_found)
        if has(5) in o['pc'] and T.bnot(has(6)) in o['pc'] and err_variant(o) is not None and err_variant(o) not in ROLE and dispatched:
            R.inst('C05.V1', 'absent-final-token-is-MissingNewLine', match(o['ret'], perr('MissingNewLine')) or err_variant(o) in MISSING, expected=perr('MissingNewLine'), found=o['ret'], entry=fp)
            n += 1
    R.floor('v1 streaming instances', n, 30)
    # a CR-free window below the limit, or a window whose CR is its last byte, is judged by the field parser (never a terminal verdict of its own)
    for which in ('str', 'bytes'):
        check_window(ctx, R, 'C05.V1', which, only=['no-cr-below-limit', 'cr-is-last-byte'])


def fold_preds(a):
    """constant-fold starts_with / ends_with / eq over byte constants after substitution"""
    def go(x):
        x = T.map_children(x, go)
        if x[0] == 'call' and x[1] in ('starts_with', 'ends_with') and x[2][0][0] == 'bytes' and x[2][1][0] == 'bytes':
            r = x[2][0][1].startswith(x[2][1][1]) if x[1] == 'starts_with' else x[2][0][1].endswith(x[2][1][1])
            return T.TRUE if r else T.FALSE
        if x[0] == 'eq' and x[1][0] == 'bytes' and x[2][0] == 'bytes':
            return T.TRUE if x[1][1] == x[2][1] else T.FALSE
        if x[0] == 'not' and x[1][0] == 'int':
            return T.bnot(x[1])
        if x[0] == 'and':
            return T.band_bool(x[1], x[2])
        if x[0] == 'or':
            return T.bor_bool(x[1], x[2])
        return x
    return go(a)


def c04_w(ctx, R):
    """C04.W: the input reaches the field parser only through the window; acceptance needs the CRLF suffix"""
    rows = ['cr-with-following-byte', 'cr-is-last-byte', 'no-cr-below-limit']
    n = check_window(ctx, R, 'C04.W', 'str', only=rows) + check_window(ctx, R, 'C04.W', 'bytes', only=rows)
    R.floor('v1 window instances', n, 6)
    m = model(ctx, R)
    ev, outs = m.fp_outs()
    if outs:
        text = m.text()
        crlf = ('call', 'ends_with', (text, ('bytes', tables.V1_SUFFIX)))
        for o in ok_outcomes(outs):
            R.inst('C04.W', 'accept-requires-CRLF-suffix/' + str(variant_of(o)), crlf in o['pc'], expected='ends_with(window, "\\r\\n") dominates Ok',
                   found='established' if crlf in o['pc'] else 'not established', entry=m.fp, kind='suffix-not-established')


def c06_x(ctx, R):
    m = model(ctx, R)
    ev, outs = m.fp_outs()
    if not outs:
        return
    srcs = split_sources(outs)
    if len(srcs) != 1:
        return
    src = next(iter(srcs))
    t0 = ('call', 'tok', (src, I(0)))
    for o in ok_outcomes(outs):
        R.inst('C06.X', 'v1-accept-requires-PROXY-first/' + str(variant_of(o)), T.eq(('bytes', tables.V1_PREFIX), t0) in o['pc'],
               expected='tok0 == "PROXY"', found=pc_text(o['pc'], 5), entry=m.fp)


def c01_provenance_only(ctx, R, rule):
    """keyword / field-order facts of the parser needed by the formatter agreement (C08.F)"""
    m = model(ctx, R)
    ev, outs = m.fp_outs()
    if not outs:
        return
    srcs = split_sources(outs)
    if len(srcs) != 1:
        return
    src = next(iter(srcs))
    tk = lambda k: ('call', 'tok', (src, I(k)))
    for o in ok_outcomes(outs):
        var = variant_of(o)
        kw = {'Tcp4': tables.V1_TCP4, 'Tcp6': tables.V1_TCP6, 'Unknown': tables.V1_UNKNOWN}.get(var)
        R.inst(rule, 'parser-keyword-for-kind/' + str(var), kw is not None and T.eq(('bytes', kw), tk(1)) in o['pc'], expected='tok1 == %r' % kw, found=pc_text(o['pc'], 8), entry=m.fp)
        if var in ('Tcp4', 'Tcp6'):
            a = T.adt_field(T.adt_field(T.adt_field(o['ret'], '0'), 'addresses'), '0')
            order = []
            for fld in ('source_address', 'destination_address', 'source_port', 'destination_port'):
                v = T.adt_field(a, fld)
                toks = tokens_in(v)
                order.append(next(iter(toks))[2][1][1] if len(toks) == 1 else None)
            R.inst(rule, 'parser-field-order/' + var, order == [2, 3, 4, 5], expected='[2, 3, 4, 5]', found=str(order), entry=m.fp)


def accept_conditions(src, text, var):
    """spec acceptance condition of a canonical line of kind `var`, over the token predicates (conjunct name -> atom)"""
    tk = lambda k: ('call', 'tok', (src, I(k)))
    has = lambda k: ('call', 'has_tok', (src, I(k)))
    n = T.mk_len(text)
    A = {'window-non-empty': T.bnot(T.eq0(n)), 'window-at-most-107': T.cmp('Le', n, I(tables.V1_MAX)),
         'token0=PROXY': T.eq(('bytes', tables.V1_PREFIX), tk(0)), 'token1-present': has(1),
         'ends-with-CRLF': ('call', 'ends_with', (text, ('bytes', tables.V1_SUFFIX)))}
    if var == 'Unknown':
        A.update({'token1=UNKNOWN': T.eq(('bytes', tables.V1_UNKNOWN), tk(1)), 'final-token-present': has(2),
                  'final-token=LF': T.eq(('bytes', b'\n'), tk(2)), 'nothing-after': T.bnot(has(3))})
        return A
    kw, aty = (tables.V1_TCP4, 'std::net::Ipv4Addr') if var == 'Tcp4' else (tables.V1_TCP6, 'std::net::Ipv6Addr')
    A['token1=keyword'] = T.eq(('bytes', kw), tk(1))
    for k in range(2, 7):
        A['token%d-present' % k] = has(k)
    for k in range(2, 6):
        A['token%d-non-empty' % k] = T.bnot(T.eq0(T.mk_len(tk(k))))
    A['source-address-parses'] = ('call', 'parses:' + aty, (tk(2),))
    A['destination-address-parses'] = ('call', 'parses:' + aty, (tk(3),))
    for role, k in (('source', 4), ('destination', 5)):
        t = tk(k)
        A['%s-port-no-leading-zero' % role] = T.bnot(T.band_bool(('call', 'starts_with', (t, ('bytes', b'0'))), T.bnot(T.eq(t, ('bytes', b'0')))))
        A['%s-port-no-sign' % role] = T.bnot(('call', 'starts_with', (t, ('bytes', b'+'))))
        A['%s-port-parses' % role] = ('call', 'parses:u16', (t,))
    A['final-token=LF'] = T.eq(('bytes', b'\n'), tk(6))
    return A


def c01_accept(ctx, R, rule='C01.A', soundness=True):
    """(1) no outcome other than Ok is compatible with the spec's acceptance condition of a canonical line (no over-rejection);
       (2) every accepting outcome entails each conjunct of that condition (no over-acceptance), at the level of token predicates."""
    m = model(ctx, R)
    ev, outs = m.fp_outs()
    if not outs:
        return
    srcs = split_sources(outs)
    if len(srcs) != 1:
        return
    src = next(iter(srcs))
    text = m.text()
    tk = lambda k: ('call', 'tok', (src, I(k)))
    mus = {t for o in outs for a in o['pc'] for t in T.subterms(a) if t[0] == 'mu'}
    n1 = n2 = 0
    for var in ('Tcp4', 'Tcp6', 'Unknown'):
        A = accept_conditions(src, text, var)
        kw = {'Tcp4': tables.V1_TCP4, 'Tcp6': tables.V1_TCP6, 'Unknown': tables.V1_UNKNOWN}[var]
        sub_ = {tk(0): ('bytes', tables.V1_PREFIX), tk(1): ('bytes', kw)}
        if var == 'Unknown':
            sub_[tk(2)] = ('bytes', b'\n')
            for mu in mus:
                sub_[mu] = I(2)        # the canonical UNKNOWN line leaves the skip loop after zero iterations
        else:
            sub_[tk(6)] = ('bytes', b'\n')
        Aatoms = [fold_preds(T.rebuild(a, sub_)) for a in A.values()]
        for o in outs:
            if match(o['ret'], OK(ANY)):
                continue
            pc2 = [fold_preds(T.rebuild(a, sub_)) for a in o['pc']]
            allatoms = [a for a in pc2 + Aatoms if a != T.TRUE]
            clash = T.FALSE not in allatoms and solver.sat(allatoms)
            n1 += 1
            if clash:
                R.inst(rule, 'canonical-%s-line-not-rejected/%s' % (var, T.short(o['ret'])[:60]), False,
                       expected='no rejecting outcome is compatible with the acceptance condition of a well-formed %s line' % var,
                       found='%s possible under: %s' % (T.short(o['ret'])[:80], pc_text([a for a in pc2 if a != T.TRUE], 10)), entry=m.fp, kind='over-rejection')
        R.inst(rule, 'canonical-%s-line-not-rejected' % var, True, expected='checked against every rejecting outcome', found='%d outcomes' % len(outs), entry=m.fp, nontrivial=False)
        # (2) soundness direction
        for o in (ok_outcomes(outs) if soundness else []):
            if variant_of(o) != var:
                continue
            sub2 = {mu: mu for mu in mus}
            for name, c in A.items():
                if 'non-empty' in name or name in ('nothing-after',):
                    continue
                if var == 'Unknown' and name in ('final-token-present', 'final-token=LF'):
                    continue   # the final token of an UNKNOWN line has a loop-carried ordinal (checked by C15.I / C01.S)
                ok = c in o['pc'] or solver.entails(o['pc'], c)
                R.inst(rule, 'accept-implies/%s/%s' % (var, name), ok, expected=T.short(c)[:120], found='entailed' if ok else 'not entailed by: ' + pc_text(o['pc'], 8), entry=m.fp,
                       kind='over-acceptance')
                n2 += 1
    R.floor('rejecting outcomes examined', n1, 100)
    if soundness:
        R.floor('acceptance conjuncts entailed', n2, 40)


def sibling_compare(ctx, R, rule):
    """C16.S: the text and byte entry points, analysed over the same input term, must produce corresponding results on every pair of
    co-satisfiable outcomes: the same fields(window) call (errors wrapped in BinaryParseError::Parse on the byte side), the same early
    error, or an error on both sides when the window is not valid text."""
    m = model(ctx, R)
    ps, evs, souts = m.window_outs('str')
    pb, evb, bouts = m.window_outs('bytes')
    if not souts or not bouts:
        R.require(False, rule, 'siblings', 'no summary of one of the v1 entry points')
        return 0
    n = 0
    for S in souts:
        for Bt in bouts:
            if not solver.sat(list(S['pc']) + list(Bt['pc'])):
                continue
            n += 1
            s, b = S['ret'], Bt['ret']
            utf8_neg = any(a[0] == 'not' and a[1][0] == 'call' and a[1][1] == 'is_utf8' for a in Bt['pc'])
            utf8_pos = any(a[0] == 'call' and a[1] == 'is_utf8' for a in Bt['pc'])
            if s[0] == 'call' and s[1] == 'abs:fields':
                if utf8_neg:
                    ok = match(b, ERR(ANY))        # a &str window cut on a boundary is valid UTF-8: this pairing cannot occur; an error is harmless
                else:
                    call = s
                    ok = b == call or match(b, OK(('vfield', call, 'Ok', '0'))) or match(b, ERR(adtl(BPE, 'Parse', [('0', ('vfield', call, 'Err', '0'))])))
                exp = 'the byte form of %s' % T.short(s)
            elif match(s, ERR(ANY)):
                e = T.adt_field(s, '0')
                if e[0] == 'adt' and e[2] == 'HeaderTooLong':
                    ok = match(b, ERR(adtl(BPE, 'Parse', [('0', e)])))
                    exp = 'Err(Parse(HeaderTooLong))'
                else:
                    ok = match(b, ERR(ANY)) or utf8_pos   # window ends inside a character: both must fail (is_utf8(window) cannot hold then)
                    exp = 'an error on the byte side as well'
            else:
                ok = False
                exp = 'a recognised result shape'
            R.inst(rule, 'siblings-agree/%s' % T.short(s)[:50], ok, expected=exp, found=b, entry=pb, note=None if ok else 'text side: %s under %s ; byte side under %s' % (T.short(s), pc_text(S['pc'], 5), pc_text(Bt['pc'], 6)))
    return n


def missing_rule(ctx, R, rule):
    """A Missing* verdict (incomplete) is produced only when the token is really absent (or empty and last) and nothing was validated:
    necessary for C05 (prefixes) and for C18 (no incomplete verdict while later tokens are already present)."""
    m = model(ctx, R)
    ev, outs = m.fp_outs()
    if not outs:
        return
    srcs = split_sources(outs)
    if len(srcs) != 1:
        return
    src = next(iter(srcs))
    tk = lambda k: ('call', 'tok', (src, I(k)))
    has = lambda k: ('call', 'has_tok', (src, I(k)))
    n = 0
    for o in outs:
        v = err_variant(o)
        if v in MISSING:
            k = MISSING[v]
            val_ords = set()
            for a in o['pc']:
                if is_field_validation(a):
                    val_ords |= {j for j in token_ordinals(a) if j != 'mu' and j >= 2}
            ok = (T.bnot(has(k)) in o['pc'] or (T.eq0(T.mk_len(tk(k))) in o['pc'] and T.bnot(has(k + 1)) in o['pc'])) and not val_ords
            R.inst(rule, 'missing-token-%d-only-when-absent' % k, ok, expected='%s exactly when token %d is absent (or empty and last), nothing validated yet' % (v, k),
                   found=pc_text(o['pc'], 8), entry=m.fp)
            n += 1
    R.floor('Missing* outcomes examined', n, 8)


def c01_accept_unknown(ctx, R, rule='C01.A'):
    """No rejecting outcome of the field parser is compatible with the acceptance condition of a *general* UNKNOWN line
    (PROXY, UNKNOWN, then CRLF directly or a space and arbitrary CR-free text, the CRLF being the first CR): decided with the token-layout
    theory (engine/layout.py).  The skip loop of the UNKNOWN arm is unrolled (splitn yields at most 7 tokens)."""
    m = model(ctx, R)
    ev, outs = m.fp_outs()
    if not outs:
        return
    srcs = split_sources(outs)
    if len(srcs) != 1:
        return
    src = next(iter(srcs))
    text = m.text()
    tk = lambda k: ('call', 'tok', (src, I(k)))
    n = T.mk_len(text)
    CRt = I(tables.V1_CR)
    sub_ = {tk(0): ('bytes', tables.V1_PREFIX), tk(1): ('bytes', tables.V1_UNKNOWN)}
    A = [T.bnot(T.eq0(n)), T.cmp('Le', n, I(tables.V1_MAX)), ('call', 'has_tok', (src, I(1))),
         ('call', 'ends_with', (text, ('bytes', tables.V1_SUFFIX))), ('call', 'has_byte', (text, CRt)),
         T.eq0(T.sub(('call', 'first_byte', (text, CRt)), T.sub(n, I(2)))),
         T.eq0(T.sub(T.mk_len(tk(0)), I(len(tables.V1_PREFIX)))), T.eq0(T.sub(T.mk_len(tk(1)), I(len(tables.V1_UNKNOWN))))]
    seen = {}
    n_checked = 0
    for o in outs:
        if match(o['ret'], OK(ANY)):
            continue
        pc2 = [fold_preds(T.rebuild(a, sub_)) for a in o['pc']]
        if T.FALSE in pc2:
            continue
        n_checked += 1
        atoms = [a for a in pc2 if a != T.TRUE] + A
        if solver.sat(atoms):
            has_, no_ = set(), set()
            for a in o['pc']:
                neg = a[0] == 'not'
                b = a[1] if neg else a
                if b[0] == 'call' and b[1] == 'has_tok' and b[2][1][0] == 'int':
                    (no_ if neg else has_).add(b[2][1][1])
            key = '%s/seen[%s]absent[%s]' % (T.short(o['ret'])[:70], ','.join(map(str, sorted(has_))), ','.join(map(str, sorted(no_))))
            seen.setdefault(key, o)
    for key, o in sorted(seen.items()):
        R.inst(rule, 'well-formed-UNKNOWN-line-not-rejected/' + key, False,
               expected='no rejecting outcome is compatible with a well-formed PROXY UNKNOWN[ text]CRLF line', found='%s possible under: %s' % (T.short(o['ret'])[:60], pc_text(o['pc'][-8:], 8)),
               entry='v1 field parser', kind='over-rejection')
    R.inst(rule, 'well-formed-UNKNOWN-line-not-rejected', True, expected='checked against every rejecting outcome', found='%d outcomes examined, %d classes compatible' % (n_checked, len(seen)),
           entry='v1 field parser', nontrivial=True)
    R.floor('rejecting outcomes examined (general UNKNOWN line)', n_checked, 20)


def v1_no_panic(ctx, R, rule):
    """the v1 entry points return a value for every input: every panic obligation met in them (bounds, arithmetic overflow, unwrap) is
    entailed by the guards dominating it.  A path that panics has no outcome and would otherwise escape the table comparisons of this
    property (str char-boundary obligations are decided by C03.B / the window rows)."""
    from rules.common import no_panic_gaps
    m = model(ctx, R)
    n = 0
    for which, p in (('str', m.p_str), ('bytes', m.p_bytes)):
        if p is None:
            continue
        ev, outs = ctx.entry(p)
        if ev is None:
            continue
        no_panic_gaps(R, rule, ev, p, label='v1::Header::try_from(%s)' % ('&str' if which == 'str' else '&[u8]'))
        n += 1
    return n
