"""C01 — v1 parser accepts exactly the well-formed lines and decodes them faithfully (structural necessary conditions)."""
from rules.common import *
from rules import v1model

LEVEL = 'other'
FIXTURES = ['F3', 'F6']


def run(ctx, R):
    R.explanation = ('Decides structural necessary conditions only - not acceptance <=> grammar for arbitrary strings (that needs the contents of '
                     'the tokens std::str::splitn produces; defects D6/D7 of DESIGN.md are invisible to these rules). C01.K: the public v1 constants. '
                     'C01.W: both entry points hand the field parser exactly input[..first CR + 2] (the whole input when no byte follows the CR or no CR '
                     'below 107 bytes; HeaderTooLong at 107 without CR); the field parser rejects windows over 107 bytes. C01.T: one split over the '
                     'whole window on a subset of {SP, CR}; std parsers see bare tokens. C01.P: in every accepting outcome token 0 = PROXY, token 1 = '
                     'the keyword of the reported kind, fields = std parsers of tokens 2..5 in the order source address, destination address, source '
                     'port, destination port, header = the window borrowed. C01.G: accepting paths exclude a leading zero and a leading + on both '
                     'ports (u16::from_str accepts both). C01.S: ends_with(window, CRLF) dominates every Ok. C01.Y: TCP4/TCP6 arms symmetric.')
    n = v1model.check_window(ctx, R, 'C01.W', 'str') + v1model.check_window(ctx, R, 'C01.W', 'bytes')
    R.floor('window instances', n, 8)
    v1model.c01_rules(ctx, R)
    v1model.v1_no_panic(ctx, R, 'C01.W')
    v1model.c01_accept(ctx, R, 'C01.A')
    v1model.c01_accept_unknown(ctx, R, 'C01.A')
