"""C11 — TLV iteration yields exactly the standard type-length-value walk and then stops."""
from rules.common import *
from spec import tables

LEVEL = 'proof'
FIXTURES = ['F3', 'F1']
TLVS = 'v2::model::TypeLengthValues<>'


def run(ctx, R, parts=('S', 'R', 'B')):
    R.explanation = R.explanation or ('C11.S: the loop-free Iterator::next is summarised; its four guarded outcomes (value and cursor update) must equal the '
                     'reference step over the partition {o>=n; n-o<3; n-o<3+l; else}. C11.R: error outcomes park the cursor at n which forces '
                     'None on every later call; the Ok outcome advances by 3+l>=3 and stays <= n (ranking: at most floor(n/3) items plus one '
                     'error; consecutive extents tile the section). C11.B: both constructors start at offset 0 over the given section; the '
                     'fields are private and written nowhere else.')
    p = ctx.method(TLVS, 'next', 'std::iter::Iterator')
    ev, outs = ctx.entry(p)
    if not outs:
        R.require(False, 'C11.S', 'next', 'no summary')
        return
    s = P(ctx, p, 0)
    b, o = ('field', s, 'bytes'), ('field', s, 'offset')
    n = T.mk_len(b)
    l = T.mk_be((T.mk_at(b, T.add(o, I(1))), T.mk_at(b, T.add(o, I(2)))))
    ERRT = tables.V2_ERR

    def state(off):
        return adtl('v2::model::TypeLengthValues', 'TypeLengthValues', [('bytes', b), ('offset', off)])
    rem = T.sub(n, o)
    rows = [
        {'name': 'end', 'cond': [T.cmp('Ge', o, n)], 'ret': NONE, 'state': ('bind', 'unchanged')},
        {'name': 'leftovers', 'cond': [T.cmp('Lt', o, n), T.cmp('Lt', rem, I(3))],
         'ret': SOME(ERR(adtl(ERRT, 'Leftovers', [('0', ANY)]))), 'state': state(n)},
        {'name': 'overrun', 'cond': [T.cmp('Ge', rem, I(3)), T.cmp('Lt', rem, T.add(I(3), l))],
         'ret': SOME(ERR(adtl(ERRT, 'InvalidTLV', [('0', T.mk_at(b, o)), ('1', l)]))), 'state': state(n)},
        {'name': 'item', 'cond': [T.cmp('Ge', rem, T.add(I(3), l))],
         'ret': SOME(OK(adtl('v2::model::TypeLengthValue', 'TypeLengthValue',
                             [('kind', T.mk_at(b, o)), ('value', borrowed(T.mk_slice(b, T.add(o, I(3)), T.add(T.add(o, I(3)), l))))]))),
         'state': state(T.add(T.add(o, I(3)), l))},
    ]
    opaque_free(R, 'C11.S', p, outs)

    def state_of(out):
        for v, loc in out['params']:
            if loc is not None:
                return out['store'][loc]
        return ('opaque', 'no &mut self state')
    # the 'end' row must leave the state unchanged: either the symbolic self or an identical expansion
    rows[0]['state'] = None
    if 'S' in parts:
        check_rows(R, 'C11.S', p, outs, rows, state_of=state_of)
    for out in outs:
        if solver.sat(list(out['pc']) + [T.cmp('Ge', o, n)]):
            st = state_of(out)
            same = st == s or (st[0] == 'adt' and dict(T.adt_items(st)) == {'bytes': b, 'offset': o})
            R.inst('C11.R', 'end-leaves-state-unchanged', same, expected='state unchanged', found=st, entry=p)
    # C11.R ranking/typestate facts derived from the *extracted* outcomes
    for out in outs:
        st = state_of(out)
        if st == s:
            o2, b2 = o, b          # state untouched
        elif st[0] == 'adt':
            o2 = dict(T.adt_items(st)).get('offset')
            b2 = dict(T.adt_items(st)).get('bytes')
        else:
            R.inst('C11.R', 'state-is-a-cursor-value', False, expected='TypeLengthValues{bytes, offset}', found=st, entry=p, kind='unprovable')
            continue
        R.inst('C11.R', 'section-never-reassigned', b2 == b, expected=b, found=b2, entry=p)
        ret = out['ret']
        is_item = match(ret, SOME(OK(ANY)))
        is_err = match(ret, SOME(ERR(ANY)))
        if is_err:
            R.inst('C11.R', 'error-parks-cursor-at-end', solver.entails(out['pc'], T.cmp('Ge', o2, n)),
                   expected='offset\' >= len(bytes)', found=T.short(o2), entry=p)
        if is_item:
            R.inst('C11.R', 'item-advances-by-at-least-3', solver.entails(out['pc'], T.cmp('Ge', T.sub(o2, o), I(3))),
                   expected="offset' - offset >= 3", found=T.short(T.sub(o2, o)), entry=p)
            R.inst('C11.R', 'item-stays-inside-section', solver.entails(out['pc'], T.cmp('Le', o2, n)),
                   expected="offset' <= len(bytes)", found=T.short(o2), entry=p)
    R.floor('step outcomes', len(outs), 4)
    if 'B' not in parts:
        return
    # C11.B constructors
    # the section of an accepted header is its payload after the address block: INV2 (incl. address kind = wire family) and the tlv_bytes view
    from spec import inv
    from rules import C14 as C14mod
    inv.establish_inv2(ctx, R, 'C11.B')
    C14mod.views(ctx, R, names=('tlv_bytes',))
    pf = ctx.method(TLVS, 'from', 'std::convert::From<&[u8]>')
    ev, fouts = ctx.entry(pf)
    if fouts:
        a = P(ctx, pf, 0)
        exp = adtl('v2::model::TypeLengthValues', 'TypeLengthValues', [('bytes', a), ('offset', I(0))])
        R.inst('C11.B', 'From<&[u8]>', len(fouts) == 1 and match(fouts[0]['ret'], exp), expected=exp, found=fouts[0]['ret'], entry=pf)
    pt = ctx.method(tables.V2_HEADER, 'tlvs')
    ptb = ctx.method(tables.V2_HEADER, 'tlv_bytes')
    ev, touts = ctx.entry(pt, abstract={ptb: 'tlv_bytes'} if ptb else None)
    if touts:
        a = P(ctx, pt, 0)
        exp = adtl('v2::model::TypeLengthValues', 'TypeLengthValues', [('bytes', ('call', 'abs:tlv_bytes', (a,))), ('offset', I(0))])
        R.inst('C11.B', 'Header::tlvs', len(touts) == 1 and match(touts[0]['ret'], exp), expected=exp, found=touts[0]['ret'], entry=pt)
    # private fields, written only by next / the two constructors
    a = ctx.fx.adts.get('v2::model::TypeLengthValues')
    if R.require(a is not None, 'C11.B', 'TypeLengthValues', 'struct missing'):
        for f in a['variants'][0]['fields']:
            R.inst('C11.B', 'field-private/' + f['name'], not f['vis'].startswith('Public'), expected='private field', found=f['vis'], entry='v2::model::TypeLengthValues')
        writers = who_constructs(ctx, 'v2::model::TypeLengthValues')
        allowed = {pf, pt}
        extra = sorted(w for w in writers if w not in allowed)
        R.inst('C11.B', 'constructed-only-by-the-two-constructors', not extra, expected=str(sorted(allowed)), found=str(sorted(writers)), entry='v2::model::TypeLengthValues')
        fw = who_writes_fields(ctx, 'v2::model::TypeLengthValues')
        owned = private_helpers_of(ctx, [p])
        extra = sorted(w for w in fw if w not in owned)
        R.inst('C11.B', 'fields-assigned-only-by-next', not extra, expected=str([p]), found=str(sorted(fw)), entry='v2::model::TypeLengthValues')
