"""C11 — TLV iteration yields exactly the standard type-length-value walk and then stops."""
from rules.common import *
from spec import tables

LEVEL = 'proof'
FIXTURES = ['F3', 'F1']
TLVS = 'v2::model::TypeLengthValues<>'


def run(ctx, R, parts=('S', 'R', 'B')):
    R.explanation = R.explanation or ('C11.S: the loop-free Iterator::next is summarised; its four guarded outcomes (value and cursor update) must equal the '
                     'reference step over the partition {o>=n; n-o<3; n-o<3+l; else}. C11.R: error outcomes park the cursor at n which forces '
                     'None on every later call; the Ok outcome advances by 3+l>=3 and stays <= n (ranking: at most floor(n/3) items plus one '
                     'error; consecutive extents tile the section). C11.B: both constructors start at offset 0 over the given section; the '
                     'fields are private and written nowhere else.')
    p = ctx.method(TLVS, 'next', 'std::iter::Iterator')
    ev, outs = ctx.entry(p)
    if not outs:
        R.require(False, 'C11.S', 'next', 'no summary')
        return
    s = P(ctx, p, 0)
    b, o = ('field', s, 'bytes'), ('field', s, 'offset')
    n = T.mk_len(b)
    l = T.mk_be((T.mk_at(b, T.add(o, I(1))), T.mk_at(b, T.add(o, I(2)))))
    ERRT = tables.V2_ERR

    def state(off):
        return adtl('v2::model::TypeLengthValues', 'TypeLengthValues', [('bytes', b), ('offset', off)])
    rem = T.sub(n, o)
    rows = [
        {'name': 'end', 'cond': [T.cmp('Ge', o, n)], 'ret': NONE, 'state': ('bind', 'unchanged')},
        {'name': 'leftovers', 'cond': [T.cmp('Lt', o, n), T.cmp('Lt', rem, I(3))],
         'ret': SOME(ERR(adtl(ERRT, 'Leftovers', [('0', ANY)]))), 'state': state(n)},
        {'name': 'overrun', 'cond': [T.cmp('Ge', rem, I(3)), T.cmp('Lt', rem, T.add(I(3), l))],
         'ret': SOME(ERR(adtl(ERRT, 'InvalidTLV', [('0', T.mk_at(b, o)), ('1', l)]))), 'state': state(n)},
        {'name': 'item', 'cond': [T.cmp('Ge', rem, T.add(I(3), l))],
         'ret': SOME(OK(adtl('v2::model::TypeLengthValue', 'TypeLengthValue',
                             [('kind', T.mk_at(b, o)), ('value', borrowed(T.mk_slice(b, T.add(o, I(3)), T.add(T.add(o, I(3)), l))))]))),
         'state': state(T.add(T.add(o, I(3)), l))},
    ]
    opaque_free(R, 'C11.S', p, outs)

    def state_of(out):
        for v, loc in out['params']:
            if loc is not None:
                return out['store'][loc]
        return ('opaque', 'no &mut self state')
    # the 'end' row must leave the state unchanged: either the symbolic self or an identical expansion
    rows[0]['state'] = None
    if 'S' in parts:
        check_rows(R, 'C11.S', p, outs, rows, state_of=state_of)
        # the step returns for every section and cursor: a panicking path has no outcome and would escape the row comparison
        no_panic_gaps(R, 'C11.S', ev, p)
    for out in outs:
        if solver.sat(list(out['pc']) + [T.cmp('Ge', o, n)]):
            st = state_of(out)
            same = st == s or (st[0] == 'adt' and dict(T.adt_items(st)) == {'bytes': b, 'offset': o})
            R.inst('C11.R', 'end-leaves-state-unchanged', same, expected='state unchanged', found=st, entry=p)
    # C11.R ranking/typestate facts derived from the *extracted* outcomes
    for out in outs:
        st = state_of(out)
        if st == s:
            o2, b2 = o, b          # state untouched
        elif st[0] == 'adt':
            o2 = dict(T.adt_items(st)).get('offset')
            b2 = dict(T.adt_items(st)).get('bytes')
        else:
            R.inst('C11.R', 'state-is-a-cursor-value', False, expected='TypeLengthValues{bytes, offset}', found=st, entry=p, kind='unprovable')
            continue
        R.inst('C11.R', 'section-never-reassigned', b2 == b, expected=b, found=b2, entry=p)
        ret = out['ret']
        is_item = match(ret, SOME(OK(ANY)))
        is_err = match(ret, SOME(ERR(ANY)))
        if is_err:
            R.inst('C11.R', 'error-parks-cursor-at-end', solver.entails(out['pc'], T.cmp('Ge', o2, n)),
                   expected='offset\' >= len(bytes)', found=T.short(o2), entry=p)
        if is_item:
            R.inst('C11.R', 'item-advances-by-at-least-3', solver.entails(out['pc'], T.cmp('Ge', T.sub(o2, o), I(3))),
                   expected="offset' - offset >= 3", found=T.short(T.sub(o2, o)), entry=p)
            R.inst('C11.R', 'item-stays-inside-section', solver.entails(out['pc'], T.cmp('Le', o2, n)),
                   expected="offset' <= len(bytes)", found=T.short(o2), entry=p)
    R.floor('step outcomes', len(outs), 4)
    if 'S' in parts:
        overrides(ctx, R)
    if 'B' not in parts:
        return
    # C11.B constructors
    # the section of an accepted header is its payload after the address block: INV2 (incl. address kind = wire family) and the tlv_bytes view
    from spec import inv
    from rules import C14 as C14mod
    inv.establish_inv2(ctx, R, 'C11.B')
    C14mod.views(ctx, R, names=('tlv_bytes',))
    pf = ctx.method(TLVS, 'from', 'std::convert::From<&[u8]>')
    ev, fouts = ctx.entry(pf)
    if fouts:
        a = P(ctx, pf, 0)
        exp = adtl('v2::model::TypeLengthValues', 'TypeLengthValues', [('bytes', a), ('offset', I(0))])
        R.inst('C11.B', 'From<&[u8]>', len(fouts) == 1 and match(fouts[0]['ret'], exp), expected=exp, found=fouts[0]['ret'], entry=pf)
    pt = ctx.method(tables.V2_HEADER, 'tlvs')
    ptb = ctx.method(tables.V2_HEADER, 'tlv_bytes')
    ev, touts = ctx.entry(pt, abstract={ptb: 'tlv_bytes'} if ptb else None)
    if touts:
        a = P(ctx, pt, 0)
        exp = adtl('v2::model::TypeLengthValues', 'TypeLengthValues', [('bytes', ('call', 'abs:tlv_bytes', (a,))), ('offset', I(0))])
        R.inst('C11.B', 'Header::tlvs', len(touts) == 1 and match(touts[0]['ret'], exp), expected=exp, found=touts[0]['ret'], entry=pt)
    # private fields, written only by next / the two constructors
    a = ctx.fx.adts.get('v2::model::TypeLengthValues')
    if R.require(a is not None, 'C11.B', 'TypeLengthValues', 'struct missing'):
        for f in a['variants'][0]['fields']:
            R.inst('C11.B', 'field-private/' + f['name'], not f['vis'].startswith('Public'), expected='private field', found=f['vis'], entry='v2::model::TypeLengthValues')
        writers = who_constructs(ctx, 'v2::model::TypeLengthValues')
        allowed = {pf, pt}
        extra = sorted(w for w in writers if w not in allowed)
        R.inst('C11.B', 'constructed-only-by-the-two-constructors', not extra, expected=str(sorted(allowed)), found=str(sorted(writers)), entry='v2::model::TypeLengthValues')
        fw = who_writes_fields(ctx, 'v2::model::TypeLengthValues')
        owned = private_helpers_of(ctx, [p])
        extra = sorted(w for w in fw if w not in owned)
        R.inst('C11.B', 'fields-assigned-only-by-next', not extra, expected=str([p]), found=str(sorted(fw)), entry='v2::model::TypeLengthValues')


# Iterator methods whose result is a function of the item sequence and that a base-case comparison can decide
DECIDABLE_OVERRIDES = ('count', 'last', 'fold', 'for_each', 'nth', 'any', 'all', 'position')
IGNORED_OVERRIDES = ('size_hint',)        # only a capacity hint: no item, order or termination depends on it


def overrides(ctx, R, rule='C11.O'):
    """Provided Iterator methods overridden for TypeLengthValues must agree with the walk that `next` defines.  Decided on the base cases whose
    item sequence is at most one item long (empty remainder; 1 or 2 stray bytes; a declared value that overruns the section): the item
    sequence is taken from the extracted summary of `next` itself and the override's summary must equal the provided method's value on it.
    A necessary condition only (sections with two or more items are not compared); overrides outside DECIDABLE_OVERRIDES are listed, not judged."""
    im = None
    for i in ctx.fx.impls:
        if i.get('trait_path') == 'std::iter::Iterator' and tys_strip(i.get('self', '')) == 'v2::model::TypeLengthValues':
            im = i
    if not R.require(im is not None, rule, 'impl Iterator for TypeLengthValues', 'impl not found'):
        return
    pn = ctx.method(TLVS, 'next', 'std::iter::Iterator')
    names = [it['name'] for it in im['items'] if it['kind'] == 'AssocFn']
    R.inst(rule, 'iterator-impl-methods', 'next' in names, expected='next (+ optional overrides)', found=str(names), entry=pn, nontrivial=False)
    for it in im['items']:
        if it['kind'] != 'AssocFn' or it['name'] == 'next':
            continue
        name, pm = it['name'], it['path']
        if name in IGNORED_OVERRIDES:
            R.inst(rule, 'override/%s/irrelevant-to-the-item-sequence' % name, True, expected='ignored', found='ignored', entry=pm, nontrivial=False)
            continue
        if name not in DECIDABLE_OVERRIDES or pm not in ctx.fx.fns:
            R.inst(rule, 'override/%s/not-judged' % name, True, expected='-', found='override present; its agreement with next is not decided by this rule', entry=pm, nontrivial=False)
            continue
        s = P(ctx, pm, 0)
        sn = P(ctx, pn, 0)
        b, o = ('field', s, 'bytes'), ('field', s, 'offset')
        n = T.mk_len(b)
        rem = T.sub(n, o)
        l = T.mk_be((T.mk_at(b, T.add(o, I(1))), T.mk_at(b, T.add(o, I(2)))))
        classes = [('end', [T.eq0(rem)]), ('one-stray-byte', [T.eq0(T.sub(rem, I(1)))]), ('two-stray-bytes', [T.eq0(T.sub(rem, I(2)))]),
                   ('overrun', [T.cmp('Ge', rem, I(3)), T.cmp('Lt', rem, T.add(I(3), l))])]
        for cname, assume in classes:
            # the item sequence of this class according to next's own summary (same state, expressed over next's parameter)
            ren = {s: sn}
            evn, nouts = ctx.entry(pn, assume=[T.rebuild(a, ren) for a in assume])
            if not nouts or len(nouts) != 1:
                continue                      # C11.S reports a next that does not decide this class with one outcome
            first = T.rebuild(nouts[0]['ret'], {sn: s})
            if match(first, NONE):
                seq = []
            elif match(first, SOME(ERR(ANY))):
                seq = [T.adt_field(first, '0')]           # an error item ends the walk (C11.R)
            else:
                continue
            exp_log = None
            nth_assume = []
            if name == 'for_each':
                # provided for_each: the supplied function is applied to each item in order, nothing else is observable
                fv = P(ctx, pm, 1)
                exp = T.UNIT
                exp_log = ('tuple', tuple(('tuple', (fv, x)) for x in seq))
            elif name == 'nth':
                # provided nth(n): the n-th item (from 0) of the walk; with at most one item that is the first item for n = 0 and None otherwise
                nv = P(ctx, pm, 1)
                exp = None
            elif name in ('any', 'all', 'position'):
                # provided any / all over at most one item: false / true without an item, otherwise the predicate's verdict on the item
                fv = P(ctx, pm, 1)
                exp = (NONE if name == 'position' else T.FALSE if name == 'any' else T.TRUE) if not seq else ('call', 'apply#0', (fv, seq[0]))
            elif name == 'fold':
                # provided fold: init when there is no item, f(init, item) for one item (the supplied function's first application on the path)
                init, fv = P(ctx, pm, 1), P(ctx, pm, 2)
                exp = init if not seq else ('call', 'apply#0', (fv, init, seq[0]))
            else:
                exp = I(len(seq)) if name == 'count' else (SOME(seq[-1]) if seq else NONE)
            cases = [(cname, assume, exp)]
            if name == 'nth':
                cases = [(cname + '/n=0', assume + [T.eq0(nv)], SOME(seq[0]) if seq else NONE), (cname + '/n>=1', assume + [T.cmp('Ge', nv, I(1))], NONE)]
            for cname, assume, exp in cases:
                try:
                    evm, mouts = ctx.entry(pm, assume=assume, symbolic_fns=(name in ('fold', 'for_each', 'any', 'all', 'position')))
                except Exception:
                    mouts = None
                if not mouts:
                    continue
                for mo in mouts:
                    r = mo['ret']
                    if exp_log is not None:
                        got = mo['store'].get(('X', 'apply_log'), ('tuple', ()))
                        okl = equal(got, exp_log) or match(got, exp_log)
                        R.inst(rule, 'override/%s/%s/applications' % (name, cname), okl, expected=exp_log, found=got, entry=pm,
                               note=None if okl else 'next yields %s for this class; under %s' % ('no item' if not seq else T.short(seq[0]), pc_text(mo['pc'], 6)))
                        continue
                    if T.has_opaque(r) or any(t[0] == 'mu' for t in T.subterms(r)) or any(T.has_opaque(a) or any(t[0] == 'mu' for t in T.subterms(a)) for a in mo['pc']):
                        R.inst(rule, 'override/%s/%s/not-judged' % (name, cname), True, expected=exp, found='summary not closed-form', entry=pm, nontrivial=False)
                        continue
                    ok = equal(r, exp) or match(r, exp) or (T.is_numeric(r) and T.is_numeric(exp) and solver.entails(mo['pc'], T.eq0(T.sub(r, exp))))
                    if not ok and name in ('any', 'all') and exp[0] == 'call':
                        # the predicate's verdict was branched on: the returned constant must be the verdict this path assumed
                        ok = (r == T.TRUE and exp in mo['pc']) or (r == T.FALSE and T.bnot(exp) in mo['pc'])
                    if not ok and name == 'position' and exp[0] == 'call':
                        # position over one item: Some(0) where the predicate held, None where it did not
                        ok = (match(r, SOME(I(0))) and exp in mo['pc']) or (match(r, NONE) and T.bnot(exp) in mo['pc'])
                    R.inst(rule, 'override/%s/%s' % (name, cname), ok, expected=exp, found=r, entry=pm,
                           note=None if ok else 'next yields %s for this class; under %s' % ('no item' if not seq else T.short(seq[0]), pc_text(mo['pc'], 6)))


def tys_strip(s):
    import tys
    return tys.strip_lifetimes(s).replace('<>', '')
