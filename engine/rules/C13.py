"""C13 — re-encoding a parsed v2 header from its parts reproduces it byte for byte."""
from rules.builder import *
from rules import C07 as C07mod, C11 as C11mod, C14 as C14mod, C20 as C20mod, C09 as C09mod
from spec import v2parse, inv
import tys

LEVEL = 'proof'
FIXTURES = ['F3', 'F8']
HDR = tables.V2_HEADER


def step(ctx, R, rule, label, path, args, gmap, assume, want_ok=True):
    """one call of the fixed history; -> list of (extra guards, value) for its Ok outcomes; any other outcome is a violation"""
    res = []
    if not solver.sat(list(assume)):
        return res          # this combination of guards cannot occur
    ev, outs = ctx.entry(path, args=args, gmap=gmap, assume=assume)
    if ev is not None:
        no_panic_gaps(R, rule, ev, path, label=label)
    if not outs:
        R.inst(rule, label + '/summary', False, expected='a summary', found='none', entry=path, kind='unprovable')
        return res
    for o in outs:
        r = o['ret']
        if want_ok:
            if match(r, OK(ANY)):
                res.append((o['pc'], T.adt_field(r, '0')))
            else:
                R.inst(rule, label + '/cannot-fail', False, expected='Ok on every path (sizes are within limits)', found=r, entry=path,
                       note='under ' + pc_text(o['pc'], 10))
        else:
            res.append((o['pc'], r))
    return res


def run(ctx, R):
    R.explanation = ('For each of the 24 accepted control-byte combinations the analyser builds the generic accepted header h = SIG ++ [c12] ++ [c13] '
                     '++ be16(size+len(T)) ++ A ++ T (A an arbitrary address block of the family size, T an arbitrary TLV section, total <= 65535), '
                     'runs the v2 parser summary on it to obtain the parsed value, the accessor summaries to obtain address_bytes / tlv_bytes, and '
                     'then composes the builder transformers of the fixed history new(h[12], h[13]) . write_payload(address_bytes) . '
                     'write_payload(tlv_bytes) . build, and with_addresses(h[12], protocol, addresses) . write_payload(tlv_bytes) . build when a '
                     'family is specified; every path must be Ok and the bytes must normalise to h. C13.I: re-encoding an item yielded by the TLV '
                     'step gives exactly the bytes it was read from (so a well-formed section is the concatenation of its items).')
    p_parse = ctx.method(HDR, 'try_from', 'std::convert::TryFrom<&[u8]>')
    p_ab, p_tb = ctx.method(HDR, 'address_bytes'), ctx.method(HDR, 'tlv_bytes')
    p_new, p_with = ctx.method(B, 'new'), ctx.method(B, 'with_addresses')
    p_wp, p_build = ctx.method(B, 'write_payload'), ctx.method(B, 'build')
    if not all([p_parse, p_ab, p_tb, p_new, p_with, p_wp, p_build]):
        return
    SLICE = {'T': tys.parse('&[u8]')}
    n_hist = 0
    for fcode, var in tables.FAMILIES.items():
        size = tables.FAMILY_SIZE[var]
        A = ('param', 80, 'address_block')
        Tl = ('param', 81, 'tlv_section')
        if size:
            T.KNOWN_LEN[A] = size
        else:
            A = ('bytes', b'')
        for ccode, cmd in tables.COMMANDS.items():
            for tcode, trn in tables.TRANSPORTS.items():
                L = T.add(I(size), T.mk_len(Tl))
                vc, afp = I(0x20 | ccode), I(fcode | tcode)
                h = T.mk_concat([enc.fixed(vc, afp, T.mk_tobytes('tobe', 2, L)), A, Tl])
                assume = [T.cmp('Le', L, I(tables.U16_MAX))]
                tag = '%s/%s/%s' % (cmd, var, trn)
                parsed = step(ctx, R, 'C13.H', 'parse/' + tag, p_parse, [h], None, assume)
                if len(parsed) != 1:
                    R.inst('C13.H', 'parse/%s/single-accepting-outcome' % tag, False, expected='1', found=str(len(parsed)), entry=p_parse)
                    continue
                hv = parsed[0][1]
                views = {}
                for name, pth in (('address_bytes', p_ab), ('tlv_bytes', p_tb)):
                    ev, outs = ctx.entry(pth, args=[hv], assume=assume)
                    vals = {T.canon_seq(o['ret']) for o in (outs or [])}
                    views[name] = outs
                # history (a): raw views
                for label, first in (('raw', None), ('decoded', 'with')):
                    if first == 'with' and var == 'Unspecified':
                        continue
                    if first is None:
                        b0s = step(ctx, R, 'C13.H', '%s/%s/new' % (label, tag), p_new, [vc, afp], None, assume, want_ok=False)
                    else:
                        b0s = step(ctx, R, 'C13.H', '%s/%s/with_addresses' % (label, tag), p_with,
                                   [vc, T.adt_field(hv, 'protocol'), T.adt_field(hv, 'addresses')], {'T': tys.parse('v2::model::Addresses')}, assume, want_ok=False)
                    finals = []
                    for g0, b0 in b0s:
                        chain = [(list(g0), b0)]
                        payloads = ([views['address_bytes']] if first is None else []) + [views['tlv_bytes']]
                        for vouts in payloads:
                            nxt = []
                            for g, bv in chain:
                                for vo in vouts or []:
                                    for g2, b2 in step(ctx, R, 'C13.H', '%s/%s/write_payload' % (label, tag), p_wp, [bv, vo['ret']], SLICE,
                                                       assume + [a for a in g + list(vo['pc']) if a not in assume]):
                                        nxt.append((list(g2), b2))
                            chain = nxt
                        for g, bv in chain:
                            for g2, out in step(ctx, R, 'C13.H', '%s/%s/build' % (label, tag), p_build, [bv], None, assume + [a for a in g if a not in assume]):
                                finals.append((g2, out))
                    okall = len(finals) > 0
                    for g, out in finals:
                        same = seq_equal_under(g, out, h)
                        R.inst('C13.H', 'rebuild-%s/%s' % (label, tag), same, expected=h, found=out, entry=p_build, note=None if same else 'under ' + pc_text(g, 10))
                        okall = okall and same
                    R.inst('C13.H', 'rebuild-%s/%s/completes' % (label, tag), len(finals) > 0, expected='>= 1 completed history', found=str(len(finals)), entry=p_build, nontrivial=False)
                    n_hist += 1
                    if okall and var == 'IPv4' and len(R.samples) < 6:
                        R.sample({'rule': 'C13.H', 'history': label, 'header': T.short(h), 'rebuilt': T.short(finals[0][1])})
    R.floor('rebuild histories composed', n_hist, 42)
    # C13.I: item re-encoding = the bytes it was read from
    p = ctx.method('v2::model::TypeLengthValues<>', 'next', 'std::iter::Iterator')
    ev, outs = ctx.entry(p)
    if outs:
        s = P(ctx, p, 0)
        b, o = ('field', s, 'bytes'), ('field', s, 'offset')
        n_items = 0
        for out in outs:
            r = out['ret']
            if not match(r, SOME(OK(ANY))):
                continue
            item = T.adt_field(T.adt_field(r, '0'), '0')
            e = enc.tlv_enc(T.adt_field(item, 'kind'), T.adt_field(item, 'value')[4][0] if T.adt_field(item, 'value')[0] == 'adt' else T.adt_field(item, 'value'))
            st = None
            for v, loc in out['params']:
                if loc is not None:
                    st = out['store'][loc]
            o2 = T.adt_field(st, 'offset') if st is not None and st[0] == 'adt' else None
            exp = T.mk_slice(b, o, o2) if o2 is not None else None
            # tobe16(len(value)) with len(value) = l must be the two length bytes: needs be/tobe inversion under l = be(..)
            ok = exp is not None and T.canon_seq(e) == T.canon_seq(exp)
            if not ok and exp is not None:
                # replace len(value) by the decoded length term it equals on this path
                lv = T.mk_len(T.adt_field(item, 'value')[4][0])
                ok = solver.entails(out['pc'], T.eq0(T.sub(lv, T.mk_be((T.mk_at(b, T.add(o, I(1))), T.mk_at(b, T.add(o, I(2)))))))) and \
                    T.canon_seq(T.mk_concat([('arr', (T.adt_field(item, 'kind'),)), ('arr', (T.mk_at(b, T.add(o, I(1))), T.mk_at(b, T.add(o, I(2))))), T.adt_field(item, 'value')[4][0]])) == T.canon_seq(exp)
            R.inst('C13.I', 'enc(item)-is-the-slice-it-was-read-from', ok, expected=exp, found=e, entry=p)
            n_items += 1
        R.floor('item outcomes', n_items, 1)
    # the TypeLengthValues / [u8] / TypeLengthValue / Addresses encoders and the views these histories rely on are decided by C20.E, C14.V, C09.B;
    # re-evaluate the view and encoder rules here so that this check does not trust another check's evidence file
    inv.establish_inv2(ctx, R, 'C13.V')
    impls = {strip(im['self']): im for im in C20mod.encoder_impls(ctx)}
    for self_ty, E, lim in (('v2::model::TypeLengthValues', lambda s, v: ('field', s, 'bytes'), None),
                            ('v2::model::TypeLengthValue', lambda s, v: enc.tlv_enc(('field', s, 'kind'), ('field', s, 'value')), lambda s: ('field', s, 'value'))):
        im = impls.get(self_ty)
        if R.require(im is not None, 'C13.A', self_ty, 'encoder impl missing'):
            pth = [it['path'] for it in im['items'] if it['name'] == 'write_to'][0]
            C20mod.check_encoder(ctx, R, pth, self_ty, E, limit_on=lim)
