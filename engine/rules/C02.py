"""C02 — v2 parser accepts exactly the well-formed headers and decodes them faithfully.
The extracted guarded outcomes of <v2::Header as TryFrom<&[u8]>>::try_from are compared, for all
inputs at once, with the reference decision table (spec/v2parse.py): acceptance iff the spec's
predicate, and in the accepting rows every field term equals the reference layout."""
from rules.v2common import *

LEVEL = 'proof'
FIXTURES = ['F3', 'F1']


def run(ctx, R):
    R.explanation = ('C02.A/T/D: 24 accepting rows (command x family x transport) with the exact decoded value, and 15 rejecting row '
                     'families; every extracted outcome must agree with every row it can co-occur with (Fourier-Motzkin + nibble '
                     'disequalities decide co-occurrence) and be covered by the exhaustive table.')
    p, inp, outs = run_v2_table(ctx, R, 'C02', 'C02.A')
    if outs is None:
        return
    n_ok = sum(1 for o in outs if o['ret'][0] == 'adt' and o['ret'][2] == 'Ok')
    R.floor('accepting outcomes', n_ok, 24)
    R.floor('return sites (outcomes)', len(outs), 35)
    # C02.T: size table of the public byte_length
    bl = ctx.method('v2::model::AddressFamily', 'byte_length')
    ev, bouts = ctx.entry(bl)
    if bouts:
        s = P(ctx, bl, 0)
        rows = [{'name': 'size/' + fam, 'cond': [('isvar', s, fam)], 'ret': NONE if sz == 0 else SOME(I(sz))}
                for fam, sz in tables.FAMILY_SIZE.items()]
        check_rows(R, 'C02.T', bl, bouts, rows)
    # discriminants agree with the wire codes (the table image of a nibble is the variant with that code)
    for adt_path, table in (('v2::model::Version', tables.VERSION), ('v2::model::Command', tables.COMMANDS),
                            ('v2::model::AddressFamily', tables.FAMILIES), ('v2::model::Protocol', tables.TRANSPORTS)):
        a = ctx.fx.adts.get(adt_path)
        if not R.require(a is not None, 'C02.T', adt_path, 'enum missing'):
            continue
        found = {v['discr']: v['name'] for v in a['variants']}
        R.inst('C02.T', 'codes/' + adt_path, found == table, expected=str(table), found=str(found), entry=adt_path, nontrivial=True)
