"""C04 — an accepted header never depends on or consumes the bytes that follow it."""
from rules.v2common import *
from rules import C06

LEVEL = 'other'
FIXTURES = ['F3', 'F1']


def run(ctx, R):
    R.explanation = ('v2 (decided for every input): C04.M every guard on an accepting path that mentions len(input) is a lower bound; C04.R the '
                     'accepting outcome and its guards read input only below 16+L (entailed by the guards), and the reported header is exactly '
                     'input[..16+L] (C02 rows) - so appending bytes, or cutting to the reported header, changes no branch and no term. C04.H the '
                     'auto-detector returns one of the two results unchanged, selected by the v2 result only. v1 (structural): C04.W input reaches '
                     'the field parser only through the window cut at the first CR + 2, and acceptance requires the window to end in CRLF.')
    p, inp, outs = run_v2_table(ctx, R, 'C04', 'C04.D')
    if outs is not None:
        n = T.mk_len(inp)
        L = T.mk_be((T.mk_at(inp, I(14)), T.mk_at(inp, I(15))))
        end = T.add(I(16), L)
        n_guard = n_read = 0
        for o in outs:
            if not match(o['ret'], OK(ANY)):
                continue
            # C04.M monotone guards
            for a in o['pc']:
                atoms = flatten_and(a)
                for x in atoms:
                    if not T.mentions(x, n) and not any(t == n for t in T.subterms(x)):
                        continue
                    if solver.entails([], x):
                        continue        # a tautology under the type bounds (e.g. the no-overflow side condition len <= usize::MAX + 16)
                    n_guard += 1
                    ok = x[0] == 'ge0' and T.to_lin(x[1])[1].get(n, 0) > 0 and not any(T.mentions(k, n) for k in T.to_lin(x[1])[1] if k != n)
                    if not ok:
                        R.inst('C04.M', 'length-guard-is-a-lower-bound', False, expected='len(input) >= e', found=x, entry=p)
            # C04.R read set
            for t0 in [o['ret']] + list(o['pc']):
                for t in T.subterms(t0):
                    if t[0] == 'at' and t[1] == inp:
                        n_read += 1
                        if not solver.entails(o['pc'], T.cmp('Lt', t[2], end)):
                            R.inst('C04.R', 'read-inside-header', False, expected='index < 16+L', found=t, entry=p)
                    elif t[0] == 'slice' and t[1] == inp:
                        n_read += 1
                        if not solver.entails(o['pc'], T.cmp('Le', t[3], end)):
                            R.inst('C04.R', 'read-inside-header', False, expected='slice end <= 16+L', found=t, entry=p)
                    elif t == inp and t0 is not None:
                        pass
            # the whole input may appear only inside len/at/slice
            for t0 in [o['ret']]:
                if bare_use(t0, inp):
                    R.inst('C04.R', 'no-whole-input-in-result', False, expected='input used only through len / index / sub-slice', found=t0, entry=p)
        R.inst('C04.M', 'length-guard-is-a-lower-bound', True, expected='all length guards on accepting paths are lower bounds', found='%d guards inspected' % n_guard, entry=p)
        R.inst('C04.R', 'read-inside-header', True, expected='all reads on accepting paths below 16+L', found='%d reads inspected' % n_read, entry=p)
        R.floor('v2 length guards on accepting paths', n_guard, 48)
        R.floor('v2 reads on accepting paths', n_read, 100)
    C06.auto_table(ctx, R, 'C04.H', only=['v2 accepts', 'v2 terminal'])
    # C04.L the number of bytes to drain: len() / as_bytes() of an accepted v2 header are the reported header, 16 + declared length (rule shared with C14.L)
    from rules import C14 as C14mod
    C14mod.views(ctx, R, names=('len', 'as_bytes', 'length'), rule='C04.L')
    try:
        from rules import v1model, C16 as C16mod
        v1model.c04_w(ctx, R)
        v1model.v1_no_panic(ctx, R, 'C04.W')
        # the FromStr entry points return exactly what try_from(&str) accepted (header text included)
        C16mod.fromstr_delegation(ctx, R, 'C04.F')
    except ImportError:
        R.assumptions.append('C04.W (v1 window) not decided by this build')


def flatten_and(a):
    if a[0] == 'and':
        return flatten_and(a[1]) + flatten_and(a[2])
    return [a]


def bare_use(t, inp):
    """does `inp` occur in t other than as the base of len/at/slice?"""
    if t == inp:
        return True
    if t[0] in ('len', 'at', 'slice') and t[1] == inp:
        return any(bare_use(c, inp) for c in T.children(t) if c is not t[1]) if t[0] != 'len' else False
    return any(bare_use(c, inp) for c in T.children(t))
