"""C10 — builder output is the in-order concatenation of what was written, nothing else."""
from rules.builder import *
from rules import C09 as C09mod

LEVEL = 'proof'
FIXTURES = ['F8', 'F4', 'F3']


def header_bytes(f):
    h = f.get('header')
    if h is not None and h[0] == 'adt' and h[2] == 'Some':
        return T.adt_field(h, '0')
    return None


def check_append(ctx, R, p, label, gmap, payload_enc, extra_args):
    """method `p` (fallible, consumes self): in every Ok outcome header' = Some(PRE ++ payload_enc), other fields unchanged"""
    s = P(ctx, p, 0)
    n = 0
    for plabel, pre, buf, var in prestates(s):
        for lcase in ('Some', 'None'):
            if buf is not None and lcase == 'None':
                continue    # the stored length is irrelevant once the buffer exists
            lassume, lbytes0 = length_at_first_write(s, lcase) if buf is None else ([], None)
            ev, outs = ctx.entry(p, assume=pre + lassume, gmap=gmap)
            if not outs:
                R.require(False, 'C10.I', label, 'no summary')
                continue
            PRE = buf if buf is not None else fixenc(s, var, lbytes0)
            oks = 0
            for o in outs:
                if not match(o['ret'], OK(ANY)):
                    continue
                oks += 1
                f = fields_of(T.adt_field(o['ret'], '0'), s)
                if f is None:
                    R.inst('C10.I', '%s/%s/returns-builder' % (label, plabel), False, expected='Builder', found=o['ret'], entry=p)
                    continue
                hb = header_bytes(f)
                exp = T.mk_concat([PRE, payload_enc(o)])
                ok = hb is not None and seq_equal_under(o['pc'], contract(hb), exp)
                R.inst('C10.I', '%s/%s/%s/appends-exactly-the-payload' % (label, plabel, lcase), ok, expected=exp, found=contract(hb) if hb is not None else f.get('header'),
                       entry=p, note=None if ok else 'under ' + pc_text(o['pc'], 8))
                unchanged_fields(R, 'C10.F', p, '%s/%s' % (label, plabel), f, s, except_=('header',))
                if hb is not None and T.mentions(contract(hb), ('field', s, 'additional_capacity')):
                    R.inst('C10.F', label + '/capacity-not-in-contents', False, expected='capacity hint never reaches the bytes', found=contract(hb), entry=p)
                n += 1
                if ok and plabel.startswith('fresh/IPv4') and len(R.samples) < 8:
                    R.sample({'rule': 'C10.I', 'entry': p, 'pre': plabel, 'expected': T.short(exp), 'found': T.short(contract(hb))})
            R.inst('C10.I', '%s/%s/%s/has-success-outcome' % (label, plabel, lcase), oks > 0, expected='>= 1', found=str(oks), entry=p, nontrivial=False)
    return n


def run(ctx, R):
    R.explanation = R.explanation or ('C10.I: inductive invariant "header = None, or Some(FIX ++ enc(addresses) ++ P)" over the method transformers: each of '
                     'write_payload / write_tlv / write_payloads is summarised under every abstract pre-state (buffer absent x 4 address kinds x length '
                     'Some/None; buffer present and arbitrary) and every Ok outcome must have header = Some(PRE ++ enc(payload)) where PRE is the '
                     'existing buffer or the freshly written fixed part + address block; generic payloads use the WriteToHeader contract proved by '
                     'C20.E (writer := old ++ enc(x)). The batch loop is judged by the append-loop idiom: one write_to per next(), ? on its result, '
                     'nothing else modified. C10.F: control bytes, addresses and length are never assigned outside constructors / set_length; the '
                     'capacity hint never reaches the contents. build returns the buffer with only bytes 14..16 rewritten (C09.B, re-evaluated). '
                     'C10.T: fallible methods consume self and return io::Result<Self>.')
    transformers(ctx, R)
    # the contract used above for generic payloads (writer := old ++ enc(x)) and the Writer it rests on, re-evaluated for every payload kind
    from rules import C20 as C20mod
    C20mod.all_encoders(ctx, R)


def transformers(ctx, R):
    total = 0
    # constructors
    p = ctx.method(B, 'new')
    ev, outs = ctx.entry(p)
    if outs:
        a = [P(ctx, p, i) for i in range(2)]
        exp = adtl(B, 'Builder', [('header', NONE), ('version_command', a[0]), ('address_family_protocol', a[1]),
                                  ('addresses', adtl('v2::model::Addresses', 'Unspecified', [])), ('length', NONE), ('additional_capacity', I(0))])
        R.inst('C10.I', 'new', len(outs) == 1 and match(outs[0]['ret'], exp), expected=exp, found=outs[0]['ret'], entry=p)
    p = ctx.method(B, 'with_addresses')
    ev, outs = ctx.entry(p)
    if outs:
        a = [P(ctx, p, i) for i in range(3)]
        conv = ('call', 'into:v2::model::Addresses', (a[2],))
        inv_fam = {v: k for k, v in tables.FAMILIES.items()}
        pd = ('discr', a[1])
        rows = []
        for var in tables.FAMILY_SIZE:
            exp = adtl(B, 'Builder', [('header', NONE), ('version_command', a[0]), ('address_family_protocol', T.bitop('bor', pd, I(inv_fam[var]))),
                                      ('addresses', conv), ('length', NONE), ('additional_capacity', I(0))])
            rows.append({'name': 'with_addresses/' + var, 'cond': [('isvar', conv, var)], 'ret': exp})
        check_rows(R, 'C10.I', p, outs, rows)
    # write_header is private: its effect is visible through the fresh/* pre-states of the public methods below
    # write_payload<T>
    p = ctx.method(B, 'write_payload')
    if p:
        signature_ok(ctx, R, 'C10.T', p)
        pay = P(ctx, p, 1)
        total += check_append(ctx, R, p, 'write_payload', None, lambda o: ('call', 'enc', (pay,)), [])
    # write_tlv
    p = ctx.method(B, 'write_tlv')
    if p:
        signature_ok(ctx, R, 'C10.T', p)
        k, v = P(ctx, p, 1), P(ctx, p, 2)
        fn = ctx.fx.fns[p]
        kty = [g for g in fn['generics'] if not g.startswith("'")]
        kind = ('call', 'into:u8', (k,))
        total += check_append(ctx, R, p, 'write_tlv', None, lambda o: enc.tlv_enc(kind, v), [])
    # write_payloads: loop idiom
    p = ctx.method(B, 'write_payloads')
    if p:
        signature_ok(ctx, R, 'C10.T', p)
        s = P(ctx, p, 0)
        for plabel, pre, buf, var in prestates(s):
            lassume, lbytes0 = length_at_first_write(s, 'None') if buf is None else ([], None)
            ev, outs = ctx.entry(p, assume=pre + lassume)
            if not outs:
                continue
            PRE = buf if buf is not None else fixenc(s, var, lbytes0)
            # the batch loop: the one loop reached from this method (directly, in a closure or in a private helper) that changes a Writer
            def changes_writer(lp):
                return any(v[0] == 'adt' and v[1] == 'v2::builder::Writer' and lp['widened'].store.get(loc) != v for loc, v in lp['entry'].store.items())
            loops = [lp for lp in ev.loops if changes_writer(lp)]
            R.inst('C10.I', 'write_payloads/%s/one-loop' % plabel, len(loops) == 1, expected='1 loop', found=str(len(loops)), entry=p)
            if len(loops) != 1:
                continue
            lp = loops[0]
            W, entry_st = lp['widened'], lp['entry']
            # locations widened by the loop: exactly the writer's bytes and the iterator
            changed = {loc: (entry_st.store[loc], W.store[loc]) for loc in W.store if W.store[loc] != entry_st.store.get(loc)}
            wl = [loc for loc, (a, b) in changed.items() if a[0] == 'adt' and a[1] == 'v2::builder::Writer']
            il = [loc for loc in changed if loc not in wl]
            R.inst('C10.I', 'write_payloads/%s/loop-modifies-only-writer-and-iterator' % plabel, len(wl) == 1 and len(il) == 1,
                   expected='writer + iterator', found='%d writer-typed, %d other locations' % (len(wl), len(il)), entry=p)
            if len(wl) != 1 or len(il) != 1:
                continue
            wloc, iloc = wl[0], il[0]
            start = entry_st.store[wloc]
            startb = T.adt_field(start, 'bytes') if start[0] == 'adt' else None
            R.inst('C10.I', 'write_payloads/%s/loop-starts-from-existing-buffer' % plabel, startb is not None and seq_equal_under(entry_st.pc, startb, PRE),
                   expected=PRE, found=startb, entry=p)
            wv = W.store[wloc]
            mu_w = T.adt_field(wv, 'bytes') if wv[0] == 'adt' else ('field', wv, 'bytes')
            mu_i = W.store[iloc]
            item = ('call', 'iter_item', (mu_i,))
            for bstate in lp['backs']:
                wb = contract(('field', bstate.store[wloc], 'bytes')) if bstate.store[wloc][0] != 'adt' else contract(T.adt_field(bstate.store[wloc], 'bytes'))
                exp = T.mk_concat([mu_w, ('call', 'enc', (item,))])
                R.inst('C10.I', 'write_payloads/%s/iteration-appends-next-item' % plabel, equal(wb, exp), expected=exp, found=wb, entry=p)
                R.inst('C10.I', 'write_payloads/%s/iteration-advances-iterator-once' % plabel, bstate.store[iloc] == ('call', 'iter_advance', (mu_i,)),
                       expected=('call', 'iter_advance', (mu_i,)), found=bstate.store[iloc], entry=p)
                others = [loc for loc in W.store if loc not in (wloc, iloc) and loc in bstate.store and bstate.store[loc] != W.store[loc] and loc[0] == lp['fid'] and ctx.fx.fns[lp['fn']]['locals'][loc[1]]['name']]
                R.inst('C10.I', 'write_payloads/%s/iteration-touches-nothing-else' % plabel, not others, expected='no other named local changed', found=str(others), entry=p)
            R.inst('C10.I', 'write_payloads/%s/has-iteration' % plabel, len(lp['backs']) >= 1, expected='>= 1 back edge state', found=str(len(lp['backs'])), entry=p)
            # exits: Ok -> header = Some(accumulated bytes), fields unchanged
            oks = 0
            for o in outs:
                if match(o['ret'], OK(ANY)):
                    oks += 1
                    f = fields_of(T.adt_field(o['ret'], '0'), s)
                    hb = header_bytes(f) if f else None
                    R.inst('C10.I', 'write_payloads/%s/exit-stores-accumulated-buffer' % plabel, hb is not None and equal(hb, mu_w), expected=mu_w, found=hb, entry=p)
                    if f:
                        unchanged_fields(R, 'C10.F', p, 'write_payloads/' + plabel, f, s, except_=('header',))
                    total += 1
            R.inst('C10.I', 'write_payloads/%s/has-success-outcome' % plabel, oks > 0, expected='>= 1', found=str(oks), entry=p, nontrivial=False)
    # reserve_capacity: contents unchanged
    p = ctx.method(B, 'reserve_capacity')
    ev, outs = ctx.entry(p)
    if outs:
        s = P(ctx, p, 0)
        for o in outs:
            f = fields_of(o['ret'], s)
            if f is None:
                R.inst('C10.I', 'reserve_capacity/returns-builder', False, expected='Builder', found=o['ret'], entry=p)
                continue
            R.inst('C10.I', 'reserve_capacity/contents-unchanged', f['header'] == ('field', s, 'header'), expected=('field', s, 'header'), found=f['header'], entry=p)
            unchanged_fields(R, 'C10.F', p, 'reserve_capacity', f, s, except_=('header', 'additional_capacity'))
            total += 1
    # set_length (C09.S) and build (C09.B) re-evaluated: build rewrites at most bytes 14..16
    C09mod.build_rows(ctx, R, rule='C10.I')
    p = ctx.method(B, 'set_length')
    ev, outs = ctx.entry(p)
    if outs:
        s = P(ctx, p, 0)
        for o in outs:
            f = fields_of(o['ret'], s)
            if f:
                unchanged_fields(R, 'C10.F', p, 'set_length', f, s, except_=('length',))
    R.floor('method x pre-state transformers checked', total, 20)
