"""C03 — parsing, accessors and iteration never panic or hang on any input."""
from rules.common import *
import tys
from spec import tables, inv
import axioms

LEVEL = 'proof'
FIXTURES = ['F1', 'F2', 'F4', 'F6']
NEEDS_REL = True

# std callees without a semantic model that are total (cannot panic, terminate) - C03.U allowlist
TOTAL_STD = {
    "std::fmt::Formatter::<'a>::debug_tuple_field1_finish", 'std::fmt::Formatter::debug_tuple_field1_finish',
    'std::fmt::Formatter::debug_tuple_field2_finish', 'std::fmt::Formatter::debug_struct_field2_finish',
    'std::fmt::Formatter::pad', '<str as std::fmt::Display>::fmt', '<T as std::fmt::Display>::fmt', '<&T as std::fmt::Display>::fmt',
}

ARITH = ('bounds', 'overflow', 'wrap', 'slice_order', 'slice_end', 'len_eq', 'index', 'unwrap', 'other')


def inv1_atoms(h, addresses, variant):
    """INV1 for a parsed v1 header (assumed here; its derivation from the parser is C01.S / C15): the text starts with
    PROXY, one separator byte and the keyword of the address kind (all ASCII), is at least 2 bytes longer and ends in CRLF."""
    kw = {'Tcp4': tables.V1_TCP4, 'Tcp6': tables.V1_TCP6, 'Unknown': tables.V1_UNKNOWN}[variant]
    start = len(tables.V1_PREFIX) + 1 + len(kw)
    n = T.mk_len(h)
    return [('isvar', addresses, variant), T.cmp('Ge', n, I(start + 2)),
            ('call', 'is_char_boundary', (h, I(start))), ('call', 'is_char_boundary', (h, T.sub(n, I(2))))]


def boundary_ok(ob):
    """C03.B: a str index bound must be 0, len, a find() result (+ the ASCII char's length), a position just after a constant
    prefix known to be present, or a boundary asserted by the type invariant."""
    cond = ob['cond']
    s, idx = cond[2]
    pc = ob['pc']
    if cond in pc:
        return 'invariant'
    if idx == I(0) or solver.entails(pc, T.eq0(T.sub(idx, T.mk_len(s)))):
        return 'start/end'
    base, off = s, I(0)
    if s[0] == 'slice':
        base, off = s[1], s[2]
    absidx = T.add(off, idx)
    for a in pc:
        # boundary relative to a find() result on the same text
        for t in T.subterms(a):
            if t[0] == 'call' and t[1] == 'first_byte' and t[2][0] == base and t[2][1][0] == 'int' and t[2][1][1] < 128:
                d = T.sub(absidx, t)
                if d in (I(0), I(1)):
                    return 'find-result'
        if a[0] == 'call' and a[1] == 'starts_with' and a[2][0] == s and a[2][1][0] == 'bytes' and idx == I(len(a[2][1][1])):
            return 'after-constant-prefix'
        if a[0] == 'call' and a[1] == 'is_char_boundary' and a[2][0] == base and solver.entails(pc, T.eq0(T.sub(a[2][1], absidx))):
            return 'invariant'
    return None


def loop_carried(ob):
    return any(t[0] == 'mu' for t in T.subterms(ob['cond'])) or any(t[0] == 'mu' for a in ob['pc'] for t in T.subterms(a))


def discharge(ctx, R, ev, entry, label, definite_only=False):
    groups = {}
    for ob in ev.all_obls:
        if definite_only and loop_carried(ob):
            continue        # needs a loop invariant this rule does not synthesise: not judged (see scope_completeness)
        k = (ob['fn'], ob['site'], ob['kind'], ob['detail'])
        groups.setdefault(k, []).append(ob)
    n_sites = 0
    for (fn, site, kind, detail), obs in sorted(groups.items(), key=lambda kv: str(kv[0])):
        n_sites += 1
        bad = None
        how = set()
        for ob in obs:
            if kind == 'char_boundary':
                r = boundary_ok(ob)
                if r is None:
                    bad = ob
                    break
                how.add(r)
            else:
                if ob['cond'] == T.TRUE or solver.entails(ob['pc'], ob['cond']):
                    how.add('entailed')
                else:
                    bad = ob
                    break
        rule = 'C03.B' if kind == 'char_boundary' else 'C03.O'
        key = '%s/%s/%s' % (fn, kind, detail or '-')
        if bad is None:
            R.inst(rule, key, True, expected=T.short(obs[0]['cond'])[:200], found='%d path instance(s) discharged (%s)' % (len(obs), ','.join(sorted(how))),
                   entry=label, site=site)
            if len(R.samples) < 10 and kind != 'char_boundary' and obs[0]['cond'] != T.TRUE:
                R.sample({'rule': rule, 'entry': label, 'site': site, 'kind': kind, 'obligation': T.short(obs[0]['cond'])[:200],
                          'guards': pc_text(obs[0]['pc'], 6), 'verdict': 'entailed'})
        else:
            R.inst(rule, key + '/' + T.short(bad['cond'])[:160], False, expected='%s entailed by the guards that dominate it' % T.short(bad['cond'])[:300],
                   found='not entailed under: ' + pc_text(bad['pc'], 10), entry=label, site=site, kind='panic-reachable')
    return n_sites


def loops_ok(ctx, R, ev, label):
    n = 0
    for lp in ev.loops:
        n += 1
        W = lp['widened']
        adv = False
        for b in lp['backs']:
            ok_b = False
            for loc, wv in W.store.items():
                bv = b.store.get(loc)
                if bv is None or bv == wv:
                    continue
                if wv[0] == 'adt' and wv[1] == '$Split' and bv[0] == 'adt' and bv[1] == '$Split':
                    if T.sub(T.adt_field(bv, 'pos'), T.adt_field(wv, 'pos')) == I(1):
                        ok_b = True
                if bv == ('call', 'iter_advance', (wv,)):
                    ok_b = True
            adv = ok_b
            if not ok_b:
                break
        R.inst('C03.L', 'loop-advances-a-finite-iterator/%s' % lp['fn'], adv and len(lp['backs']) > 0,
               expected='every iteration advances a std iterator over a finite sequence', found='%d back-edge states' % len(lp['backs']), entry=label)
    return n


def unknowns_ok(ctx, R, ev, label):
    for callee, cnt in sorted(ev.unknown_callees.items()):
        if callee in TOTAL_STD or strip(callee) in TOTAL_STD:
            R.inst('C03.U', 'total-std-callee/' + callee, True, expected='allow-listed total function', found='%d call(s)' % cnt, entry=label, nontrivial=False)
        else:
            R.inst('C03.U', 'unknown-callee/' + callee, False, expected='a std callee with an axiom or on the total-function allowlist',
                   found='%d call(s) to %s' % (cnt, callee), entry=label, kind='unprovable')


def analyse(ctx, R, p, label=None, assume=None, abstract=None, definite_only=False):
    if p is None:
        return 0
    ev, outs = ctx.entry(p, assume=assume, abstract=abstract)
    if ev is None:
        return 0
    label = label or p
    n = discharge(ctx, R, ev, p, label, definite_only)
    if not definite_only:
        loops_ok(ctx, R, ev, label)
    if definite_only:
        # extra-scope functions: std callees without an axiom are listed, not judged
        for callee, cnt in sorted(ev.unknown_callees.items()):
            R.inst('C03.U', 'extra-scope-callee-not-judged/' + callee, True, expected='-', found='%d call(s)' % cnt, entry=label, nontrivial=False)
        R.inst('C03.O', 'returns-on-some-path/' + label, len(outs) > 0, expected='>= 1 normal return', found=str(len(outs)), entry=label, nontrivial=False)
        return n
    unknowns_ok(ctx, R, ev, label)
    R.inst('C03.O', 'returns-on-some-path/' + label, len(outs) > 0, expected='>= 1 normal return', found=str(len(outs)), entry=label, nontrivial=False)
    return n


def scope(ctx, R):
    sites = 0
    H1, A1, H2, A2 = tables.V1_HEADER, tables.V1_ADDR, tables.V2_HEADER, tables.V2_ADDR
    v1s = ctx.method(H1, 'try_from', 'std::convert::TryFrom<&str>')
    v1b = ctx.method(H1, 'try_from', 'std::convert::TryFrom<&[u8]>')
    v2 = ctx.method(H2, 'try_from', 'std::convert::TryFrom<&[u8]>')
    own1 = ctx.method(H1, 'to_owned')
    # entry points
    sites += analyse(ctx, R, v1s)
    sites += analyse(ctx, R, v1b)
    sites += analyse(ctx, R, v2)
    sites += analyse(ctx, R, ctx.method(A1, 'from_str', 'std::str::FromStr'), abstract={v1s: 'v1_str'} if v1s else None)
    sites += analyse(ctx, R, ctx.method('v1::model::Header<\'static>', 'from_str', 'std::str::FromStr'), abstract={v1s: 'v1_str', own1: 'to_owned'} if v1s and own1 else None)
    sites += analyse(ctx, R, ctx.method('HeaderResult<>', 'parse'), abstract={v1b: 'v1_bytes', v2: 'v2_bytes'} if v1b and v2 else None)
    # v2 header accessors under INV2, per address variant
    inv.establish_inv2(ctx, R, 'C03.I')
    for name in ('to_owned', 'length', 'len', 'is_empty', 'address_family', 'address_bytes', 'tlv_bytes', 'tlvs', 'as_bytes'):
        p = ctx.method(H2, name)
        if p is None:
            continue
        s = P(ctx, p, 0)
        for var in tables.FAMILY_SIZE:
            sites += analyse(ctx, R, p, label='%s [%s]' % (p, var), assume=inv.inv2_atoms(('field', s, 'header'), ('field', s, 'addresses'), var))
    p = ctx.method(H2, 'fmt', 'std::fmt::Display')
    if p:
        s = P(ctx, p, 0)
        for var in tables.FAMILY_SIZE:
            sites += analyse(ctx, R, p, label='%s [%s]' % (p, var), assume=inv.inv2_atoms(('field', s, 'header'), ('field', s, 'addresses'), var))
    for name in ('address_family', 'len', 'is_empty'):
        sites += analyse(ctx, R, ctx.method(A2, name))
    TLVS, TLV = 'v2::model::TypeLengthValues<>', 'v2::model::TypeLengthValue<>'
    sites += analyse(ctx, R, ctx.method(TLVS, 'next', 'std::iter::Iterator'))
    for name in ('as_bytes', 'len', 'is_empty'):
        sites += analyse(ctx, R, ctx.method(TLVS, name))
    sites += analyse(ctx, R, ctx.method(TLVS, 'from', 'std::convert::From<&[u8]>'))
    for name in ('to_owned', 'len', 'is_empty'):
        sites += analyse(ctx, R, ctx.method(TLV, name))
    # v1 header accessors under INV1 (assumed; see explanation), per address kind
    for name, trait in (('to_owned', None), ('protocol', None), ('addresses_str', None), ('fmt', 'std::fmt::Display')):
        p = ctx.method(H1, name, trait)
        if p is None:
            continue
        s = P(ctx, p, 0)
        for var in ('Tcp4', 'Tcp6', 'Unknown'):
            sites += analyse(ctx, R, p, label='%s [%s]' % (p, var), assume=inv1_atoms(('field', s, 'header'), ('field', s, 'addresses'), var))
    sites += analyse(ctx, R, ctx.method(A1, 'protocol'))
    sites += analyse(ctx, R, ctx.method(A1, 'fmt', 'std::fmt::Display'))
    # completeness flags on results
    for self_ty in ('std::result::Result<T, E>', tables.V1_ERR, tables.V1_BERR, tables.V2_ERR, 'HeaderResult<>'):
        sites += analyse(ctx, R, ctx.method(self_ty, 'is_incomplete', 'PartialResult'))
    sites += analyse(ctx, R, 'PartialResult::is_complete')
    sites += scope_completeness(ctx, R)
    return sites


BUILDER_FILE = 'src/v2/builder.rs'


def scope_completeness(ctx, R):
    """C03.S: every hand-written function of the parsing / model / error modules is in scope - either analysed above (as an entry point or
    inlined into one) or analysed here on its own with no assumption about its arguments.  A method added to a parse result's type (an
    Iterator override, a new accessor) is therefore judged without the list above having to know its name.  For these extra functions
    only obligations free of loop-carried values are judged (a counter incremented in a loop would need an invariant this rule does not
    synthesise, and reporting it would be an alarm on correct code); loop termination of extra functions is likewise not judged."""
    covered = set()
    for key, (ev, outs) in list(ctx.cache.items()):
        if ev is None:
            continue
        covered.add(key[0])
        for (caller, callee, span, kind) in ev.call_sites:
            covered.add(callee)
    n = extra = 0
    for f in ctx.fx.raw['fns']:
        if f.get('exp') or f.get('impl_derived') or f.get('impl_exp') or f.get('kind') == 'Closure':
            continue
        sp = f.get('span', '')
        if not sp.startswith('src/') or sp.startswith(BUILDER_FILE + ':'):
            continue        # every source file except the builder's (new files created by moving code are in scope)
        if tys.strip_lifetimes(f.get('impl_trait') or '').startswith('v2::builder::'):
            continue            # encoders living in builder.rs are the builder's scope (C20)
        p = f['path']
        n += 1
        if p in covered or p not in ctx.fx.fns:
            continue
        extra += 1
        # a further method on a parse result's header type is judged, like the listed accessors, on values the parsers return (INV2 / INV1)
        self_ty = tys.strip_lifetimes(f.get('impl_self') or '')
        takes_self = bool(f.get('inputs')) and 'Header' in str(f['inputs'][0])
        if takes_self and self_ty == tys.strip_lifetimes(tables.V2_HEADER):
            s0 = P(ctx, p, 0)
            for var in tables.FAMILY_SIZE:
                analyse(ctx, R, p, label='%s [%s]' % (p, var), assume=inv.inv2_atoms(('field', s0, 'header'), ('field', s0, 'addresses'), var), definite_only=True)
        elif takes_self and self_ty == tys.strip_lifetimes(tables.V1_HEADER):
            s0 = P(ctx, p, 0)
            for var in ('Tcp4', 'Tcp6', 'Unknown'):
                analyse(ctx, R, p, label='%s [%s]' % (p, var), assume=inv1_atoms(('field', s0, 'header'), ('field', s0, 'addresses'), var), definite_only=True)
        else:
            analyse(ctx, R, p, label='%s [no assumptions]' % p, definite_only=True)
    R.inst('C03.S', 'scope-completeness', True, expected='every hand-written fn of the in-scope modules analysed', found='%d functions, %d analysed on their own' % (n, extra), nontrivial=False)
    return 0


def run(ctx, R):
    R.explanation = ('C03.O: every MIR Assert terminator (bounds, overflow) and every panicking std callee (range indexing, copy_from_slice, '
                     'unwrap, str slicing) met on any path of the in-scope entry points and accessors - including paths that end in the panic - is an '
                     'inequality obligation that must be entailed (Fourier-Motzkin) by the guards dominating it; v2 accessors are analysed under '
                     'INV2, which is proved at every accepting outcome of the v2 parser; v1 accessors under INV1 (ASCII "PROXY", separator, keyword; '
                     'at least 2 more bytes; CRLF at the end), which this rule ASSUMES - its derivation is rule C01.S. C03.B: str index bounds must be '
                     '0, len, a find() result (+1), just after a constant prefix, or an invariant boundary. C03.L: the call graph explored by inlining '
                     'is acyclic (bounded depth) and every loop advances a finite std iterator on each iteration; the TLV bound n/3+1 is C11.R, '
                     're-evaluated here. C03.U: no unknown std callee in scope; unsafe count 0. Thorough tier repeats this on the release configuration '
                     '(overflow checks off: unchecked arithmetic becomes a no-wrap obligation).')
    R.assumptions.append('INV1 of parsed v1 headers is assumed for the accessor obligations (derivation: rule C01.S of check C01 / C15)')
    R.assumptions.append('std functions with an axiom are total apart from the stated panic conditions; allocation failure and stack exhaustion are out of scope')
    sites = scope(ctx, R)
    R.floor('obligation sites in scope (dev)', sites, 55)
    R.inst('C03.U', 'no-unsafe', ctx.fx.unsafe_blocks == 0, expected='0', found=str(ctx.fx.unsafe_blocks), nontrivial=False)
    # TLV iteration bound
    from rules import C11
    C11.run(ctx, R, parts=('R',))
    if ctx.fx_rel is not None:
        import runner
        ctx2 = runner.Ctx(ctx.fx_rel, R, ctx.tier)
        R.inst('C03.O', 'release-config', ctx.fx_rel.raw.get('overflow_checks') is False, expected='overflow checks off', found=str(ctx.fx_rel.raw.get('overflow_checks')), nontrivial=False)
        before = len(R.instances)
        sites2 = scope(ctx2, R)
        R.floor('obligation sites in scope (release)', sites2, 40)
        R.extra['release_instances'] = len(R.instances) - before
