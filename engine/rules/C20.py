"""C20 — every encodable value appends exactly its wire encoding and reports its size."""
from rules.common import *
from spec import tables

LEVEL = 'proof'
FIXTURES = ['F3', 'F8']
TRAIT = 'v2::builder::WriteToHeader'
WRITER = 'v2::builder::Writer'
LIMIT = tables.U16_MAX + tables.V2_FIXED     # the writer refuses to grow once it holds more than this


def writer_state(out):
    for v, loc in out['params']:
        if loc is not None:
            return out['store'][loc]
    return ('opaque', 'no writer state')


def writer_bytes(out):
    """contents of the writer after the call (the symbolic, untouched writer stands for its own bytes)"""
    for v, loc in out['params']:
        if loc is not None:
            st = out['store'][loc]
            if st == v:
                return ('field', v, 'bytes')
            if st[0] == 'adt' and st[1] == WRITER:
                return T.adt_field(st, 'bytes')
            return ('opaque', 'writer state ' + T.short(st))
    return ('opaque', 'no writer state')


def encoder_impls(ctx):
    return [im for im in ctx.fx.impls if im.get('trait_path') == TRAIT]


def check_encoder(ctx, R, p, name, E_of, limit_on=None, variants=None, limits_only=False):
    """E_of(selfterm, variant) -> expected encoding term; limit_on(selfterm) -> sequence whose length is limited to 65535"""
    ev, outs = ctx.entry(p)
    if not outs:
        R.require(False, 'C20.E', name, 'no summary')
        return
    s, w = P(ctx, p, 0), P(ctx, p, 1)
    wb = ('field', w, 'bytes')
    opaque_free(R, 'C20.E', p, outs)
    n_ok = 0
    for var in (variants or [None]):
        vcond = [('isvar', s, var)] if var else []
        E = E_of(s, var)
        lenE = T.mk_len(E)
        room = [T.cmp('Le', T.add(T.mk_len(wb), lenE), I(LIMIT))]
        lim = [T.cmp('Le', T.mk_len(limit_on(s)), I(tables.U16_MAX))] if limit_on else []
        for o in outs:
            if not solver.sat(list(o['pc']) + vcond):
                continue
            ret, st = o['ret'], writer_state(o)
            if match(ret, OK(ANY)):
                n_ok += 1
                if limits_only:
                    continue
                exp_state = adtl(WRITER, 'Writer', [('bytes', T.mk_concat([wb, E]))])
                ok_state = seq_equal_under(list(o['pc']) + vcond, writer_bytes(o), T.mk_concat([wb, E]))
                R.inst('C20.E', '%s%s/appends-encoding' % (name, '/' + var if var else ''), ok_state, expected=exp_state, found=st, entry=p)
                R.inst('C20.E', '%s%s/returns-size' % (name, '/' + var if var else ''), match(ret, OK(lenE)), expected=OK(lenE), found=ret, entry=p)
                if ok_state and len(R.samples) < 8:
                    R.sample({'rule': 'C20.E', 'entry': p, 'variant': var, 'expected_bytes': T.short(T.mk_concat([wb, E])), 'found_bytes': T.short(writer_bytes(o)), 'returns': T.short(ret)})
            else:
                # an error outcome must be impossible when the value is within its limit and the writer has room
                clash = (not limits_only) and solver.sat(list(o['pc']) + vcond + room + lim)
                R.inst('C20.E', '%s%s/no-refusal-with-room' % (name, '/' + var if var else ''), not clash,
                       expected='error outcomes only when the value is over its limit or the writer is full',
                       found='Err possible under: ' + pc_text(o['pc'], 8), entry=p)
                if limit_on and solver.sat(list(o['pc']) + vcond + [T.cmp('Gt', T.mk_len(limit_on(s)), I(tables.U16_MAX))]) and \
                        solver.entails(list(o['pc']) + vcond, T.cmp('Gt', T.mk_len(limit_on(s)), I(tables.U16_MAX))):
                    unchanged = equal(writer_bytes(o), wb)
                    R.inst('C20.R', '%s/refusal-writes-nothing' % name, unchanged, expected='writer unchanged', found=st, entry=p)
        if limit_on:
            # over-limit values are refused on every path
            for o in outs:
                if solver.sat(list(o['pc']) + vcond + [T.cmp('Gt', T.mk_len(limit_on(s)), I(tables.U16_MAX))]):
                    R.inst('C20.R', '%s/over-limit-refused' % name, match(o['ret'], ERR(ANY)), expected='Err(_)', found=o['ret'], entry=p)
    R.inst('C20.E', name + '/has-success-outcome', n_ok > 0, expected='>= 1 Ok outcome', found=str(n_ok), entry=p)


def run(ctx, R):
    R.explanation = ('C20.W: Writer::write either refuses (len > 65551, nothing written) or appends buf and returns len(buf); flush/finish/From/'
                     'Default move the vector unchanged. C20.E: for each of the 19 WriteToHeader impls every Ok outcome leaves bytes = old ++ E '
                     'and returns Ok(len E) with E the reference encoding, and no Err outcome is possible when the value is within its 16-bit '
                     'limit and the writer has room for E. C20.R: over-limit values are refused with the writer unchanged. C20.B: to_bytes is '
                     'the trait default (write into an empty writer, finish) and no impl overrides it. Reading: refusal between segments of '
                     'a multi-segment value when the writer is within a few bytes of its 65551-byte guard is not spoken to by the property.')
    impls = encoder_impls(ctx)
    R.floor('WriteToHeader impls', len(impls), 19)
    by_self = {strip(im['self']): im for im in impls}
    # ---- C20.W
    pw = ctx.method(WRITER, 'write', 'std::io::Write')
    ev, outs = ctx.entry(pw)
    if outs:
        s, buf = P(ctx, pw, 0), P(ctx, pw, 1)
        sb = ('field', s, 'bytes')
        rows = [
            {'name': 'Writer::write/room', 'cond': [T.cmp('Le', T.mk_len(sb), I(LIMIT))], 'ret': OK(T.mk_len(buf)),
             'state': adtl(WRITER, 'Writer', [('bytes', T.mk_concat([sb, buf]))])},
            {'name': 'Writer::write/full', 'cond': [T.cmp('Gt', T.mk_len(sb), I(LIMIT))], 'ret': ERR(ANY), 'state': None},
        ]
        check_rows(R, 'C20.W', pw, outs, rows, state_of=writer_state)
        for o in outs:
            if match(o['ret'], ERR(ANY)):
                st = writer_state(o)
                R.inst('C20.W', 'Writer::write/refusal-writes-nothing', st == s or (st[0] == 'adt' and equal(T.adt_field(st, 'bytes'), sb)),
                       expected='unchanged', found=st, entry=pw)
    for (self_ty, name, trait, exp_fn) in [
        (WRITER, 'finish', None, lambda a: ('field', a[0], 'bytes')),
        (WRITER, 'from', 'std::convert::From<std::vec::Vec<u8>>', lambda a: adtl(WRITER, 'Writer', [('bytes', a[0])])),
        (WRITER, 'flush', 'std::io::Write', lambda a: OK(T.UNIT)),
    ]:
        p = ctx.method(self_ty, name, trait)
        ev, outs = ctx.entry(p)
        if outs:
            a = [P(ctx, p, i) for i in range(len(param_names(ctx, p)))]
            exp = exp_fn(a)
            R.inst('C20.W', 'Writer::' + name, len(outs) == 1 and match(outs[0]['ret'], exp), expected=exp, found=outs[0]['ret'], entry=p)
            if name == 'flush':
                st = writer_state(outs[0])
                R.inst('C20.W', 'Writer::flush/no-effect', st == a[0], expected='unchanged', found=st, entry=p)
    # ---- C20.E per impl
    done = set()

    def impl_fn(self_ty):
        self_ty = strip(self_ty)
        im = by_self.get(self_ty)
        if im is None:
            R.violation('C20.E', self_ty, 'anchor-missing', note='no WriteToHeader impl for ' + self_ty)
            return None
        done.add(self_ty)
        for it in im['items']:
            if it['name'] == 'write_to':
                return it['path']
        return None

    def addr_enc(s, var):
        if var == 'Unspecified':
            return ('bytes', b'')
        a = ('vfield', s, var, '0')
        if var in ('IPv4', 'IPv6'):
            oct_ = 'octets4' if var == 'IPv4' else 'octets16'
            sa, da = ('call', oct_, (('field', a, 'source_address'),)), ('call', oct_, (('field', a, 'destination_address'),))
            T.KNOWN_LEN[sa] = T.KNOWN_LEN[da] = 4 if var == 'IPv4' else 16
            return T.mk_concat([sa, da, T.mk_tobytes('tobe', 2, ('field', a, 'source_port')), T.mk_tobytes('tobe', 2, ('field', a, 'destination_port'))])
        return T.mk_concat([('field', a, 'source'), ('field', a, 'destination')])

    p = impl_fn('v2::model::Addresses')
    if p:
        s = P(ctx, p, 0)
        check_encoder(ctx, R, p, 'Addresses', addr_enc, variants=['Unspecified', 'IPv4', 'IPv6', 'Unix'])
        # sizes equal the family sizes
        for var, sz in tables.FAMILY_SIZE.items():
            R.inst('C20.E', 'Addresses/%s/size' % var, T.mk_len(addr_enc(s, var)) == I(sz), expected=str(sz), found=T.short(T.mk_len(addr_enc(s, var))), entry=p)
    p = impl_fn('v2::model::TypeLengthValue<>')
    tlv_E = None
    if p:
        tlv_E = lambda s, var: T.mk_concat([('arr', (('field', s, 'kind'),)), T.mk_tobytes('tobe', 2, T.mk_len(('field', s, 'value'))), ('field', s, 'value')])
        check_encoder(ctx, R, p, 'TypeLengthValue', tlv_E, limit_on=lambda s: ('field', s, 'value'))
    p = impl_fn('(T, &[u8])')
    if p:
        def tup_E(s, var):
            k = ('call', 'into:u8', (('field', s, '0'),))
            v = ('field', s, '1')
            return T.mk_concat([('arr', (k,)), T.mk_tobytes('tobe', 2, T.mk_len(v)), v])
        check_encoder(ctx, R, p, '(T, &[u8])', tup_E, limit_on=lambda s: ('field', s, '1'))
    p = impl_fn('v2::model::TypeLengthValues<>')
    if p:
        check_encoder(ctx, R, p, 'TypeLengthValues', lambda s, var: ('field', s, 'bytes'))
    p = impl_fn('[u8]')
    if p:
        check_encoder(ctx, R, p, '[u8]', lambda s, var: s, limit_on=lambda s: s)
    p = impl_fn('v2::model::Type')
    if p:
        ev0, outs0 = ctx.entry(p)
        check_encoder(ctx, R, p, 'Type', lambda s, var: ('arr', (('discr', s),)))
    for ity, width in (('u8', 1), ('u16', 2), ('u32', 4), ('u64', 8), ('u128', 16), ('usize', 8),
                       ('i8', 1), ('i16', 2), ('i32', 4), ('i64', 8), ('i128', 16), ('isize', 8)):
        p = impl_fn(ity)
        if p:
            check_encoder(ctx, R, p, ity, lambda s, var, width=width: T.mk_tobytes('tobe', width, s))
    p = impl_fn('&T')
    if p:
        ev, outs = ctx.entry(p)
        if outs:
            s, w = P(ctx, p, 0), P(ctx, p, 1)
            name = 'v2::builder::WriteToHeader::write_to'
            exp_ret = ('call', 'trait:' + name, (s, w))
            exp_st = ('call', 'post:%s#1' % name, (s, w))
            ok = len(outs) == 1 and outs[0]['ret'] == exp_ret and writer_state(outs[0]) == exp_st
            R.inst('C20.E', '&T/delegates', ok, expected='write_to(*self, writer) unchanged', found=T.short(outs[0]['ret']) + ' ; ' + T.short(writer_state(outs[0])), entry=p)
    extra = sorted(set(by_self) - done)
    R.inst('C20.E', 'all-impls-have-a-reference', not extra, expected='no impl without a reference encoding', found=str(extra), kind='anchor-missing')
    # ---- C20.B to_bytes
    for im in impls:
        names = sorted(it['name'] for it in im['items'])
        R.inst('C20.B', 'to_bytes-not-overridden/' + strip(im['self']), names == ['write_to'], expected="['write_to']", found=str(names), entry='impl WriteToHeader for ' + strip(im['self']))
    p = TRAIT + '::to_bytes'
    ev, outs = ctx.entry(p)
    if outs:
        s = P(ctx, p, 0)
        empty = adtl(WRITER, 'Writer', [('bytes', ('bytes', b''))])
        name = TRAIT + '::write_to'
        call = ('call', 'trait:' + name, (s, empty))
        post = ('call', 'post:%s#1' % name, (s, empty))
        rows = [{'name': 'to_bytes/ok', 'cond': [('isvar', call, 'Ok')], 'ret': OK(('field', post, 'bytes'))},
                {'name': 'to_bytes/err', 'cond': [('isvar', call, 'Err')], 'ret': ERR(('vfield', call, 'Err', '0'))}]
        check_rows(R, 'C20.B', p, outs, rows)
    # Writer::default is the derived Default: empty vector (checked through to_bytes' empty writer term above)


def all_encoders(ctx, R, rule_prefix=None):
    """C20.E for every impl (used by checks that rely on the WriteToHeader contract so that they do not trust another check's evidence)"""
    from spec import enc
    impls = {strip(im['self']): im for im in encoder_impls(ctx)}

    def pth(self_ty):
        im = impls.get(strip(self_ty))
        if im is None:
            R.violation('C20.E', self_ty, 'anchor-missing', note='no WriteToHeader impl for ' + self_ty)
            return None
        return [it['path'] for it in im['items'] if it['name'] == 'write_to'][0]
    p = pth('v2::model::Addresses')
    if p:
        check_encoder(ctx, R, p, 'Addresses', lambda s, var: enc.addr_enc(s, var), variants=list(tables.FAMILY_SIZE))
    p = pth('v2::model::TypeLengthValue')
    if p:
        check_encoder(ctx, R, p, 'TypeLengthValue', lambda s, v: enc.tlv_enc(('field', s, 'kind'), ('field', s, 'value')), limit_on=lambda s: ('field', s, 'value'))
    p = pth('(T, &[u8])')
    if p:
        check_encoder(ctx, R, p, '(T, &[u8])', lambda s, v: enc.tlv_enc(('call', 'into:u8', (('field', s, '0'),)), ('field', s, '1')), limit_on=lambda s: ('field', s, '1'))
    p = pth('v2::model::TypeLengthValues')
    if p:
        check_encoder(ctx, R, p, 'TypeLengthValues', lambda s, var: ('field', s, 'bytes'))
    p = pth('[u8]')
    if p:
        check_encoder(ctx, R, p, '[u8]', lambda s, var: s, limit_on=lambda s: s)
    p = pth('v2::model::Type')
    if p:
        check_encoder(ctx, R, p, 'Type', lambda s, var: ('arr', (('discr', s),)))
    for ity, width in (('u8', 1), ('u16', 2), ('u32', 4), ('u64', 8), ('u128', 16), ('usize', 8), ('i8', 1), ('i16', 2), ('i32', 4), ('i64', 8), ('i128', 16), ('isize', 8)):
        p = pth(ity)
        if p:
            check_encoder(ctx, R, p, ity, lambda s, var, width=width: T.mk_tobytes('tobe', width, s))
