"""C15 — v1 header views reconstruct the header text."""
from rules.common import *
from rules import v1model, C03 as C03mod
from spec import tables

LEVEL = 'other'
FIXTURES = ['F2', 'F3']
H1, A1 = tables.V1_HEADER, tables.V1_ADDR
KW = {'Tcp4': tables.V1_TCP4, 'Tcp6': tables.V1_TCP6, 'Unknown': tables.V1_UNKNOWN}


def protocol_table(ctx, R, rule='C15.P'):
    p = ctx.method(A1, 'protocol')
    ev, outs = ctx.entry(p)
    if outs:
        s = P(ctx, p, 0)
        rows = [{'name': 'protocol/' + v, 'cond': [('isvar', s, v)], 'ret': ('bytes', kw)} for v, kw in KW.items()]
        check_rows(R, rule, p, outs, rows)
    ph = ctx.method(H1, 'protocol')
    ev, outs = ctx.entry(ph, abstract={p: 'addr_protocol'} if p else None)
    if outs:
        s = P(ctx, ph, 0)
        exp = ('call', 'abs:addr_protocol', (('field', s, 'addresses'),))
        R.inst(rule, 'Header::protocol-delegates', len(outs) == 1 and outs[0]['ret'] == exp, expected=exp, found=outs[0]['ret'], entry=ph)


def follows_keyword(ev, src, pc):
    """some token with ordinal >= 2 is known to exist: has_tok(src, 2), or has_tok(src, mu) for a loop-carried ordinal that entered its loop at >= 2"""
    for a in pc:
        if a[0] == 'call' and a[1] == 'has_tok' and a[2][0] == src:
            k = a[2][1]
            if k[0] == 'int' and k[1] >= 2:
                return True
            c0, m = T.to_lin(k)
            mus = [x for x in m if x[0] == 'mu']
            if len(mus) == 1 and len(m) == 1 and m[mus[0]] == 1 and c0 >= 0:
                for lp in ev.loops:
                    for loc, wv in lp['widened'].store.items():
                        if wv[0] == 'adt' and wv[1] == '$Split' and T.adt_field(wv, 'pos') == mus[0]:
                            ev0 = lp['entry'].store.get(loc)
                            if ev0 is not None and ev0[0] == 'adt' and T.adt_field(ev0, 'pos')[0] == 'int' and T.adt_field(ev0, 'pos')[1] >= 2:
                                return True
    # entailed by the token-layout theory (e.g. keyword token followed by ... CRLF: the CR is a separator, so a further token exists)
    return solver.entails(pc, ('call', 'has_tok', (src, I(2))))


def inv1_premises(ctx, R, rule='C15.I'):
    """premises of the INV1 lemma (DESIGN.md App. C.7) at every accepting outcome of the field parser"""
    m = v1model.model(ctx, R)
    ev, outs = m.fp_outs()
    if not outs:
        R.require(False, rule, 'field parser', 'no summary')
        return
    srcs = v1model.split_sources(outs)
    if len(srcs) != 1:
        R.inst(rule, 'single-tokeniser', False, expected='1', found=str(len(srcs)), entry=m.fp)
        return
    src = next(iter(srcs))
    text = m.text()
    seps = src[2][2]
    R.inst(rule, 'separators-are-single-ASCII-bytes', seps[0] == 'bytes' and all(b < 128 for b in seps[1]), expected='ASCII separators', found=seps, entry=m.fp)
    tk = lambda k: ('call', 'tok', (src, I(k)))
    n = 0
    for o in v1model.ok_outcomes(outs):
        var = v1model.variant_of(o)
        prem = {
            'token0=PROXY': T.eq(('bytes', tables.V1_PREFIX), tk(0)) in o['pc'],
            'token1=keyword-of-kind': var in KW and T.eq(('bytes', KW[var]), tk(1)) in o['pc'],
            'a-token-follows-the-keyword': follows_keyword(ev, src, o['pc']),
            'window-ends-with-CRLF': ('call', 'ends_with', (text, ('bytes', tables.V1_SUFFIX))) in o['pc'],
            'header-is-the-window': match(T.adt_field(T.adt_field(o['ret'], '0'), 'header'), borrowed(text)),
        }
        for k, v in prem.items():
            R.inst(rule, 'INV1-premise/%s/%s' % (k, var), v, expected='holds on the accepting path', found='missing' if not v else 'present', entry=m.fp)
            n += 1
    R.floor('INV1 premises', n, 15)


def run(ctx, R):
    R.explanation = ('C15.P: Addresses::protocol maps Tcp4/Tcp6/Unknown to TCP4/TCP6/UNKNOWN (the inverse of the keyword the parser requires in token 1, '
                     'C01.P) and Header::protocol delegates. C15.A: under INV1 addresses_str is header[6+|kw| .. len-2] with exactly one leading SP removed '
                     'when present, for each kind. C15.I: the premises of INV1 (token 0 = PROXY, token 1 = keyword, a further token, CRLF suffix, header = '
                     'window; single-byte ASCII separators) hold at every accepting outcome; with the token-layout axiom they give: ASCII prefix of length '
                     '6+|kw|, len >= 8+|kw|, CRLF at the end - hence PROXY + SP + protocol + (SP + text | nothing) + CRLF re-assembles the header. '
                     'C15.D: Display echoes the text. Rests on the token-layout axiom of str::splitn.')
    protocol_table(ctx, R)
    inv1_premises(ctx, R)
    # headers obtained through FromStr are the try_from(&str) header, copied (C16.F / C16.O)
    from rules import C16 as C16mod
    C16mod.fromstr_delegation(ctx, R, 'C15.F')
    C16mod.owned_copies(ctx, R, rule='C15.O', only=['v1::model::Header'])
    p = ctx.method(H1, 'addresses_str')
    if p:
        s = P(ctx, p, 0)
        h = ('field', s, 'header')
        n = T.mk_len(h)
        for var, kw in KW.items():
            start = len(tables.V1_PREFIX) + 1 + len(kw)
            ev, outs = ctx.entry(p, assume=C03mod.inv1_atoms(h, ('field', s, 'addresses'), var))
            if not outs:
                R.require(False, 'C15.A', 'addresses_str/' + var, 'no summary')
                continue
            mid = T.mk_slice(h, I(start), T.sub(n, I(2)))
            sp = ('call', 'starts_with', (mid, ('bytes', bytes([tables.V1_SEP]))))
            rows = [{'name': 'addresses_str/%s/no-leading-space' % var, 'cond': [T.bnot(sp)], 'ret': mid},
                    {'name': 'addresses_str/%s/one-leading-space-removed' % var, 'cond': [sp], 'ret': T.mk_slice(h, I(start + 1), T.sub(n, I(2)))}]
            check_rows(R, 'C15.A', p, outs, rows)
    # C15.D echo
    p = ctx.method(H1, 'fmt', 'std::fmt::Display')
    ev, outs = ctx.entry(p)
    if outs:
        s, f = P(ctx, p, 0), P(ctx, p, 1)
        for o in outs:
            st = None
            for v, loc in o['params']:
                if loc is not None:
                    st = o['store'][loc]
            exp = T.mk_concat([('call', 'fmt_out', (f,)), ('field', s, 'header')])
            ok = st is not None and st[0] == 'adt' and st[1] == '$Formatter' and equal(T.adt_field(st, 'out'), exp) and match(o['ret'], OK(ANY))
            R.inst('C15.D', 'display-echoes-the-text', ok, expected=exp, found=st, entry=p)
