"""Shared helpers for rule modules."""
import terms as T
import tys
import solver
from framework import ANY, match, equal, pc_text

I = T.I


def adt(path, variant, **fields):
    return T.mk_adt(path, variant, list(fields.items()))


def adtl(path, variant, fields):
    return T.mk_adt(path, variant, fields)


def OK(x):
    return T.mk_adt('std::result::Result', 'Ok', [('0', x)])


def ERR(x):
    return T.mk_adt('std::result::Result', 'Err', [('0', x)])


def SOME(x):
    return T.mk_adt('std::option::Option', 'Some', [('0', x)])


NONE = T.mk_adt('std::option::Option', 'None', [])


def borrowed(x):
    return T.mk_adt('std::borrow::Cow', 'Borrowed', [('0', x)])


def owned(x):
    return T.mk_adt('std::borrow::Cow', 'Owned', [('0', x)])


def param(i, name):
    return ('param', i, name)


def param_names(ctx, path):
    fn = ctx.fx.fns[path]
    return [fn['locals'][i + 1]['name'] or 'arg%d' % i for i in range(fn['arg_count'])]


def P(ctx, path, i):
    """the i-th parameter term of entry `path` as the evaluator names it"""
    return ('param', i, param_names(ctx, path)[i])


def check_rows(R, rule, entry, outs, rows, state_of=None, must_exist=True):
    """Compare the guarded outcomes of an entry point with a reference table.
    rows: list of dict(name, cond=[atoms], ret=pattern or None, state=pattern or None).
    Every feasible outcome must agree with every row whose condition it can satisfy, and must be
    compatible with at least one row (the table is exhaustive; anything else is unspecified)."""
    n_eval = 0
    hit = {r['name']: 0 for r in rows}
    for k, o in enumerate(outs):
        covered = False
        for r in rows:
            if not solver.sat(list(o['pc']) + list(r['cond'])):
                continue
            covered = True
            hit[r['name']] += 1
            n_eval += 1
            ok = True
            found = o['ret']
            if r.get('ret') is not None:
                ok = match(found, r['ret'], {})
                if not ok and found in (T.TRUE, T.FALSE) and r['ret'][0] in ('call', 'eq', 'eq0', 'ge0', 'not', 'and', 'or', 'isvar'):
                    # a boolean result split over two paths (`matches!(x, P if c)`): the constant returned on this path is the value of
                    # the expected condition under the path's guards
                    ok = solver.entails(list(o['pc']) + list(r['cond']), r['ret'] if found == T.TRUE else T.bnot(r['ret']))
            exp_txt = T.short(r['ret']) if r.get('ret') is not None else '(any)'
            fnd_txt = T.short(found)
            if ok and r.get('state') is not None and state_of is not None:
                fs = state_of(o)
                ok = match(fs, r['state'], {})
                exp_txt += ' ; state ' + T.short(r['state'])
                fnd_txt += ' ; state ' + T.short(fs)
            R.inst(rule, r['name'], ok, expected=exp_txt, found=fnd_txt, entry=entry,
                   note=None if ok else 'outcome under: ' + pc_text(o['pc'], 12))
            if ok and len(R.samples) < 6 and hit[r['name']] == 1:
                R.sample({'rule': rule, 'entry': entry, 'row': r['name'], 'expected': exp_txt, 'found': fnd_txt,
                          'guards': pc_text(o['pc'], 8), 'verdict': 'equal'})
        if not covered:
            R.inst(rule, 'unspecified-outcome', False, expected='an outcome covered by the reference table',
                   found=T.short(o['ret']), entry=entry, kind='unprovable', note='outcome under: ' + pc_text(o['pc'], 12))
    if must_exist:
        for r in rows:
            if r.get('optional'):
                continue
            if hit[r['name']] == 0:
                R.inst(rule, r['name'], False, expected='some outcome realising row %s' % r['name'], found='none', entry=entry,
                       kind='missing-outcome')
    return n_eval


def opaque_free(R, rule, entry, outs):
    bad = 0
    for o in outs:
        if T.has_opaque(o['ret']) or any(T.has_opaque(a) for a in o['pc']):
            bad += 1
    if bad:
        culprit = next(x for o in outs for t in [o['ret']] + list(o['pc']) for x in T.subterms(t) if x[0] == 'opaque')
        R.violation(rule, 'opaque', 'unprovable', entry=entry, note='%d outcomes depend on a construct outside the modelled vocabulary: %s' % (bad, culprit[1]))
    return bad == 0


def strip(s):
    return tys.strip_lifetimes(s)


def hand_written(ctx):
    return [f for f in ctx.fx.raw['fns'] if not f.get('impl_derived')]


def who_constructs(ctx, adt_path):
    """functions (non-derived) containing an aggregate construction of the ADT"""
    out = set()
    for f in hand_written(ctx):
        for b in f['blocks']:
            if b['cleanup']:
                continue
            for s in b['stmts']:
                if s['k'] == 'assign' and s['rv']['k'] == 'agg' and s['rv'].get('adt') == adt_path:
                    out.add(f['path'])
    return out


def who_writes_fields(ctx, adt_path, field=None):
    """functions (non-derived) that assign to a field of a place whose type is the ADT (directly or through a reference)"""
    out = set()
    for f in hand_written(ctx):
        for b in f['blocks']:
            if b['cleanup']:
                continue
            for s in b['stmts']:
                if s['k'] != 'assign':
                    continue
                p = s['place']
                if not p['p']:
                    continue
                # walk the projection, tracking the type is not available per step; use names: a field store whose base local type is the ADT
                base_ty = tys.strip_refs(tys.parse(f['locals'][p['l']]['ty']))
                if base_ty[0] == 'path' and base_ty[1] == adt_path:
                    names = [e['name'] for e in p['p'] if e['k'] == 'field']
                    if names and (field is None or names[0] == field):
                        out.add(f['path'])
    return out


def seq_equal_under(pc, a, b):
    """sequence equality modulo the constants pinned by pc and parts whose length is zero under pc"""
    if equal(a, b):
        return True
    pin = T.pinned(pc)
    # lengths forced to zero by inequalities (len >= 0 always holds)
    lens = {t for x in (a, b) for t in T.subterms(x) if t[0] == 'len'}
    for l in lens:
        if l not in pin and solver.entails(pc, T.eq0(l)):
            pin[l] = T.I(0)
    if pin:
        a, b = T.rebuild(a, pin), T.rebuild(b, pin)
        if equal(a, b):
            return True

    def parts(x):
        x = T.canon_seq(x)
        ps = list(x[1]) if x[0] == 'concat' else [x]
        return [q for q in ps if not solver.entails(pc, T.eq0(T.mk_len(q)))]
    return parts(a) == parts(b)


def callers_of(ctx):
    """crate-local call graph: callee path -> set of caller paths"""
    cg = {}
    for f in ctx.fx.raw['fns']:
        for b in f['blocks']:
            if b['cleanup']:
                continue
            t = b['term']
            if t['k'] == 'call' and 'callee' in t:
                c = t['callee']
                p = c.get('rpath') if c.get('rlocal') else (c.get('path') if c.get('local') else None)
                if p:
                    cg.setdefault(p, set()).add(f['path'])
            for st in b['stmts']:
                if st['k'] == 'assign' and st['rv']['k'] == 'agg' and st['rv'].get('ak') == 'closure':
                    cg.setdefault(st['rv']['closure'], set()).add(f['path'])
    return cg


def private_helpers_of(ctx, roots):
    """non-public functions reachable only through `roots` (their callers, transitively, are all in the set)"""
    cg = callers_of(ctx)
    allowed = set(roots)
    changed = True
    while changed:
        changed = False
        for f in ctx.fx.raw['fns']:
            p = f['path']
            if p in allowed or f.get('vis') == 'Public' or f.get('trait_default_of'):
                continue
            if 'impl_trait' in f:
                continue
            callers = cg.get(p, set())
            if callers and callers <= allowed:
                allowed.add(p)
                changed = True
    return allowed


def no_panic_gaps(R, rule, ev, entry, label=None):
    """every panic obligation met while analysing `entry` is entailed by the guards dominating it: the guarded outcomes then cover every
    input (an input that would panic has no outcome and would otherwise escape a table comparison)"""
    bad = 0
    seen = set()
    for ob in ev.all_obls:
        if ob['kind'] == 'char_boundary':
            continue
        if ob['cond'] == T.TRUE or solver.entails(ob['pc'], ob['cond']):
            continue
        k = (ob['fn'], ob['kind'], T.short(ob['cond'])[:120])
        if k in seen:
            continue
        seen.add(k)
        bad += 1
        R.inst(rule, 'no-panic-gap/%s/%s' % (ob['fn'], ob['kind']), False, expected='%s entailed by its guards' % T.short(ob['cond'])[:200],
               found='not entailed under: ' + pc_text(ob['pc'], 8), entry=label or entry, site=ob['site'], kind='panic-reachable')
    R.inst(rule, 'no-panic-gap/' + (label or entry), bad == 0, expected='all %d obligations discharged' % len(ev.all_obls), found='%d undischarged' % bad, entry=label or entry, nontrivial=len(ev.all_obls) > 0)
    return bad == 0
