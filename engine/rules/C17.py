"""C17 — v2 incomplete errors state exactly how many bytes are present and needed."""
from rules.v2common import *
from spec import classify

LEVEL = 'proof'
FIXTURES = ['F3']


def run(ctx, R):
    R.explanation = ('C17.P/G: Incomplete carries len(input) exactly in the rows short/signature-prefix and fixed-part-incomplete; Partial '
                     'carries (len(input)-16, L) exactly when all control checks pass and 16 <= len < 16+L. C17.N: for len >= 16 no guard '
                     'reads a byte at index >= 16, so appended bytes move a scenario only along the length axis: with k = L - have the '
                     'accepting row applies, with fewer the Partial row with updated counts.')
    p, inp, outs = run_v2_table(ctx, R, 'C17', 'C17.P')
    if outs is None:
        return
    n = T.mk_len(inp)
    # C17.N non-interference: guards (path conditions) read only len and bytes below 16
    reads = 0
    for o in outs:
        for a in o['pc']:
            for t in T.subterms(a):
                if t[0] == 'at' and t[1] == inp:
                    reads += 1
                    ok = t[2][0] == 'int' and 0 <= t[2][1] < 16
                    if not ok:
                        R.inst('C17.N', 'guard-reads-only-fixed-part', False, expected='index < 16', found=T.short(t), entry=p)
                if t[0] == 'slice' and t[1] == inp:
                    ok = t[3][0] == 'int' and t[3][1] <= 16
                    if not ok:
                        R.inst('C17.N', 'guard-reads-only-fixed-part', False, expected='slice end <= 16', found=T.short(t), entry=p)
    R.inst('C17.N', 'guard-reads-only-fixed-part', True, expected='all guard reads below byte 16', found='%d reads checked' % reads, entry=p)
    R.floor('guard byte reads inspected', reads, 20)
    # both incomplete variants are classified incomplete
    cl = classify.classification(ctx, R, 'C17.C', enums=[tables.V2_ERR])     # and no other v2 variant is: a result flagged incomplete must carry the two counts
