"""C19 — constructors and socket-address conversions keep every endpoint in its role.
Pure value flow: each public constructor / conversion is summarised and every field slot of the
result is compared with the reference provenance (DESIGN.md section 5, C19.C, C19.X)."""
from rules.common import *

LEVEL = 'proof'
FIXTURES = ['F3']

IPV4, IPV6, UNIX = 'ip::IPv4', 'ip::IPv6', 'v2::model::Unix'
V1A, V2A = 'v1::model::Addresses', 'v2::model::Addresses'
SOCK = '(std::net::SocketAddr, std::net::SocketAddr)'


def ip_struct(path, sa, da, sp, dp):
    return adtl(path, path.split('::')[-1], [('source_address', sa), ('source_port', sp), ('destination_address', da), ('destination_port', dp)])


def run(ctx, R):
    R.explanation = ('C19.C: the summary of each of the 13 constructors/conversions is a single guarded value per case; every '
                     'field slot must be the like-named argument (into() applied to addresses). C19.X: v1 and v2 tuple '
                     'conversions agree up to variant renaming. Decided for every argument (pure value flow).')
    slots = 0
    # --- four-argument constructors
    for (self_ty, name, wrap, target, ipty) in [
        (IPV4, 'new', None, 'std::net::Ipv4Addr', IPV4),
        (IPV6, 'new', None, 'std::net::Ipv6Addr', IPV6),
        (V1A, 'new_tcp4', 'Tcp4', 'std::net::Ipv4Addr', IPV4),
        (V1A, 'new_tcp6', 'Tcp6', 'std::net::Ipv6Addr', IPV6),
    ]:
        p = ctx.method(self_ty, name)
        ev, outs = ctx.entry(p)
        if not outs:
            R.require(False, 'C19.C', '%s::%s' % (self_ty, name), 'no summary')
            continue
        a = [P(ctx, p, i) for i in range(4)]
        exp = ip_struct(ipty, ('call', 'into:' + target, (a[0],)), ('call', 'into:' + target, (a[1],)), a[2], a[3])
        if wrap:
            exp = adtl(V1A, wrap, [('0', exp)])
        R.inst('C19.C', 'single-outcome', len(outs) == 1, expected='1 outcome', found='%d outcomes' % len(outs), entry=p)
        for o in outs:
            ok = match(o['ret'], exp)
            R.inst('C19.C', 'provenance', ok, expected=exp, found=o['ret'], entry=p)
            slots += 4
            if ok:
                R.sample({'rule': 'C19.C', 'entry': p, 'expected': T.short(exp), 'found': T.short(o['ret']), 'verdict': 'equal'})
    # --- Unix::new
    p = ctx.method(UNIX, 'new')
    ev, outs = ctx.entry(p)
    if outs:
        exp = adtl(UNIX, 'Unix', [('source', P(ctx, p, 0)), ('destination', P(ctx, p, 1))])
        R.inst('C19.C', 'single-outcome', len(outs) == 1, expected='1 outcome', found='%d outcomes' % len(outs), entry=p)
        for o in outs:
            R.inst('C19.C', 'provenance', match(o['ret'], exp), expected=exp, found=o['ret'], entry=p)
            slots += 2
    # --- wrapping conversions
    for (dst, src, variant) in [(V1A, IPV4, 'Tcp4'), (V1A, IPV6, 'Tcp6'), (V2A, IPV4, 'IPv4'), (V2A, IPV6, 'IPv6'), (V2A, UNIX, 'Unix')]:
        p = ctx.method(dst, 'from', 'std::convert::From<%s>' % src)
        ev, outs = ctx.entry(p)
        if outs:
            exp = adtl(dst, variant, [('0', P(ctx, p, 0))])
            R.inst('C19.C', 'single-outcome', len(outs) == 1, expected='1 outcome', found='%d outcomes' % len(outs), entry=p)
            for o in outs:
                R.inst('C19.C', 'wrap', match(o['ret'], exp), expected=exp, found=o['ret'], entry=p)
                slots += 1
    # --- tuple conversions
    tables = {}
    for (dst, v4, v6, unk) in [(V1A, 'Tcp4', 'Tcp6', 'Unknown'), (V2A, 'IPv4', 'IPv6', 'Unspecified')]:
        p = ctx.method(dst, 'from', 'std::convert::From<%s>' % SOCK)
        ev, outs = ctx.entry(p)
        if not outs:
            continue
        a = P(ctx, p, 0)
        x, y = ('field', a, '0'), ('field', a, '1')

        def sock(variant, who):
            return ('vfield', who, variant, '0')

        def fam(variant, ipty, wrap):
            sx, sy = sock(variant, x), sock(variant, y)
            return adtl(dst, wrap, [('0', ip_struct(ipty, ('call', 'sock_ip', (sx,)), ('call', 'sock_ip', (sy,)),
                                                     ('call', 'sock_port', (sx,)), ('call', 'sock_port', (sy,))))])
        rows = [
            {'name': 'V4,V4', 'cond': [('isvar', x, 'V4'), ('isvar', y, 'V4')], 'ret': fam('V4', IPV4, v4)},
            {'name': 'V6,V6', 'cond': [('isvar', x, 'V6'), ('isvar', y, 'V6')], 'ret': fam('V6', IPV6, v6)},
            {'name': 'V4,V6', 'cond': [('isvar', x, 'V4'), ('isvar', y, 'V6')], 'ret': adtl(dst, unk, [])},
            {'name': 'V6,V4', 'cond': [('isvar', x, 'V6'), ('isvar', y, 'V4')], 'ret': adtl(dst, unk, [])},
        ]
        opaque_free(R, 'C19.C', p, outs)
        check_rows(R, 'C19.C', p, outs, rows)
        slots += 10
        # table for the sibling comparison: per tag-pair class, the (renamed) variant and payload
        norm = {}
        for cls, cond in (('V4,V4', [('isvar', x, 'V4'), ('isvar', y, 'V4')]), ('V6,V6', [('isvar', x, 'V6'), ('isvar', y, 'V6')]),
                          ('V4,V6', [('isvar', x, 'V4'), ('isvar', y, 'V6')]), ('V6,V4', [('isvar', x, 'V6'), ('isvar', y, 'V4')])):
            vals = set()
            for o in outs:
                if solver.sat(list(o['pc']) + cond):
                    r = o['ret']
                    variant = {v4: 'A4', v6: 'A6', unk: 'NONE'}.get(r[2], r[2]) if r[0] == 'adt' else T.short(r)
                    payload = r[4][0] if r[0] == 'adt' and r[4] else None
                    if payload is not None:
                        payload = T.rebuild(payload, {a: ('param', 0, 'pair')})     # the two impls may name their parameter differently
                    vals.add((variant, T.short(payload) if payload else ''))
            norm[cls] = sorted(vals)
        tables[dst] = norm
    if len(tables) == 2:
        R.inst('C19.X', 'v1-v2-tuple-conversions-agree', tables[V1A] == tables[V2A], expected=str(tables[V1A])[:400],
               found=str(tables[V2A])[:400], entry='From<(SocketAddr, SocketAddr)> v1 vs v2')
    R.floor('constructors and conversions summarised', len(R.functions), 12)
    R.floor('field slots compared', slots, 40)
