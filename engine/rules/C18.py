"""C18 — v1 verdict is final once the first line break or 107 bytes have been seen (two clauses only)."""
from rules.common import *
from rules import v1model
from spec import classify, tables

LEVEL = 'other'
FIXTURES = ['F3']


def run(ctx, R):
    R.explanation = ('C18.H - in both entry points "no CR and len >= 107" yields HeaderTooLong, which is terminal (classification table), for every input; '
                     'C18.W - once a CR at i is followed by a byte the result is fields(input[..i+2]) whatever follows, so no later byte can change it; '
                     'C18.N/M - complete is the negation of incomplete, Missing* only for absent tokens; C18.X - every guarded outcome of the fully inlined '
                     'entry points that is an incomplete verdict must be unsatisfiable together with "the first CR is followed by a byte", decided with the '
                     'token-layout theory of str::splitn (engine/layout.py: token lengths and separator positions add up to the window, the first CR sits at a '
                     'separator position). On the current tree 27 classes per entry point (verdict x protocol keyword x exact token count of the window, the token count decided by the solver) ARE satisfiable with a closed window - genuine defects '
                     '(family D6 of DESIGN.md), each confirmed on the real library and listed in known_findings.json by exact key; MissingPrefix, '
                     'MissingProtocol and MissingSourceAddress are proved impossible on a closed window.')
    R.assumptions.append('token-layout axiom of str::splitn (DESIGN.md 4.3) as encoded in engine/layout.py')
    n = 0
    for which in ('str', 'bytes'):
        n += v1model.check_window(ctx, R, 'C18.H', which, only=['no-cr-at-limit'])
        n += v1model.check_window(ctx, R, 'C18.W', which, only=['cr-with-following-byte'])
    R.floor('window instances', n, 5)
    # HeaderTooLong (and every other error the property calls terminal) is classified terminal
    classify.classification(ctx, R, 'C18.C', only='terminal')
    # 'complete' is the negation of 'incomplete' for every result (default is_complete, never overridden)
    classify.flag_algebra(ctx, R, 'C18.N')
    v1model.missing_rule(ctx, R, 'C18.M')
    v1model.v1_no_panic(ctx, R, 'C18.W')
    closed_window(ctx, R)


def closed_window(ctx, R, rule='C18.X'):
    """Once the first CR is followed by a byte (the window is closed) no outcome may be an incomplete verdict.  Decided per guarded outcome of
    the fully inlined entry points with the token-layout theory (engine/layout.py): an incomplete outcome whose path condition is satisfiable
    together with 'CR present and a byte follows it' is a violation."""
    CRt = I(tables.V1_CR)
    n_checked = 0
    for which, trait in (('str', 'std::convert::TryFrom<&str>'), ('bytes', 'std::convert::TryFrom<&[u8]>')):
        p = ctx.method(tables.V1_HEADER, 'try_from', trait)
        ev, outs = ctx.entry(p)
        if not outs:
            R.require(False, rule, 'closed-window/' + which, 'no summary')
            continue
        inp = P(ctx, p, 0)
        closed = [('call', 'has_byte', (inp, CRt)), T.cmp('Le', T.add(('call', 'first_byte', (inp, CRt)), I(2)), T.mk_len(inp))]
        seen = {}
        for o in outs:
            r = o['ret']
            if not (r[0] == 'adt' and r[2] == 'Err'):
                continue
            e = T.adt_field(r, '0')
            if e[0] == 'adt' and e[1] == tables.V1_BERR and e[2] == 'Parse':
                e = T.adt_field(e, '0')
            if e[0] != 'adt' or e[2] not in tables.V1_INCOMPLETE:
                continue
            n_checked += 1
            kw = 'TCP4' if any("b'TCP4' ==" in T.short(a) and a[0] == 'eq' for a in o['pc']) else 'TCP6' if any("b'TCP6' ==" in T.short(a) and a[0] == 'eq' for a in o['pc']) else \
                 'UNKNOWN' if any("b'UNKNOWN' ==" in T.short(a) and a[0] == 'eq' for a in o['pc']) else '-'
            if kw == '-':
                kw = 'after-PROXY' if any(a[0] == 'eq' and "b'PROXY' ==" in T.short(a) for a in o['pc']) else 'first-token'
            # class of the finding: verdict, protocol keyword and the exact number of tokens in the window -- a semantic signature (decided
            # by the solver, not read off the path's syntax), so the same defect keeps its key when the parser is restructured
            src = None
            for a in o['pc']:
                for t in T.subterms(a):
                    if t[0] == 'call' and t[1] == 'split' and t[2][1][0] == 'int':
                        src = t
                        break
                if src is not None:
                    break
            if src is None:
                if solver.sat(list(o['pc']) + closed):
                    seen.setdefault('%s/%s/%s/tokens=-' % (which, e[2], kw), o)
                continue
            limit = src[2][1][1]
            for n in range(1, limit + 1):
                exact = []
                if n > 1:
                    exact.append(('call', 'has_tok', (src, I(n - 1))))
                if n < limit:
                    exact.append(T.bnot(('call', 'has_tok', (src, I(n)))))
                if solver.sat(list(o['pc']) + closed + exact):
                    seen.setdefault('%s/%s/%s/tokens=%d' % (which, e[2], kw, n), o)
        for key, o in sorted(seen.items()):
            R.inst(rule, 'incomplete-verdict-on-closed-window/' + key, False, expected='a complete verdict once the first CR is followed by a byte',
                   found='%s is reachable with the window closed, under: %s' % (T.short(o['ret']), pc_text([a for a in o['pc']][-8:], 8)), entry='v1::Header::try_from(%s)' % ('&str' if which == 'str' else '&[u8]'),
                   kind='incomplete-after-line-break')
        R.inst(rule, 'closed-window/%s/examined' % which, True, expected='every incomplete outcome examined', found='%d incomplete outcomes, %d classes reachable when closed' % (n_checked, len(seen)), entry=p, nontrivial=True)
    R.floor('incomplete outcomes examined against the closed-window condition', n_checked, 60)
