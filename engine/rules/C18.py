"""C18 — v1 verdict is final once the first line break or 107 bytes have been seen (two clauses only)."""
from rules.common import *
from rules import v1model
from spec import classify, tables

LEVEL = 'other'
FIXTURES = ['F3']


def run(ctx, R):
    R.explanation = ('Decided: C18.H - in both entry points "no CR and len >= 107" yields HeaderTooLong, which is terminal (classification table), for '
                     'every input; C18.W - once a CR at i is followed by a byte the result is fields(input[..i+2]) whatever follows, so no later byte '
                     'can change it. NOT decided: that this final result carries the complete flag - whether a Missing*/Partial outcome can be reached '
                     'with a closed window depends on token contents (defect D6 of DESIGN.md: e.g. "PROXY TCP4 1.1.1.1\\r\\n" is reported incomplete for ever).')
    R.assumptions.append('completeness flag of the final verdict on closed windows is not decided (DESIGN.md C18, D6)')
    n = 0
    for which in ('str', 'bytes'):
        n += v1model.check_window(ctx, R, 'C18.H', which, only=['no-cr-at-limit'])
        n += v1model.check_window(ctx, R, 'C18.W', which, only=['cr-with-following-byte'])
    R.floor('window instances', n, 5)
    # HeaderTooLong (and every other error the property calls terminal) is classified terminal
    classify.classification(ctx, R, 'C18.C', only='terminal')
    # 'complete' is the negation of 'incomplete' for every result (default is_complete, never overridden)
    classify.flag_algebra(ctx, R, 'C18.N')
    v1model.missing_rule(ctx, R, 'C18.M')
