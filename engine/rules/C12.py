"""C12 — a single malformed element is rejected terminally and blamed on the right field.
v2 part (core): single-corruption rows of the reference table carry the element's variant with the
offending value in place; v1 part: see rules/v1model.py (role attribution)."""
from rules.v2common import *
from spec import classify

LEVEL = 'other'
FIXTURES = ['F3']


def run(ctx, R):
    R.explanation = ('C12.V2 decided for every byte string: rows only-<element>-invalid / length-below-block / signature-mismatch of the '
                     'v2 decision table resolve to the variant named after that element carrying the masked nibble (or length, size) in '
                     'place, and every such variant is terminal (classification table). C12.V1 (role attribution of v1 tokens) is '
                     'structural: which std-parser failure / guard produces which variant; not decided: which check a corrupted '
                     'string reaches first (token contents).')
    p, inp, outs = run_v2_table(ctx, R, 'C12', 'C12.V2')
    classify.classification(ctx, R, 'C12.C', only='terminal')
    n = len([i for i in R.instances if i['rule'] == 'C12.V2'])
    R.floor('v2 element rows evaluated', n, 9)
    try:
        from rules import v1model
        v1model.c12_v1(ctx, R)
        v1model.v1_no_panic(ctx, R, 'C12.V1')
        # the FromStr entry points report exactly the error try_from(&str) reports for the same text
        from rules import C16 as C16mod
        C16mod.fromstr_delegation(ctx, R, 'C12.F')
    except ImportError:
        R.assumptions.append('C12.V1 (v1 role attribution) not decided by this build')
