"""C14 — v2 header views partition the header consistently (under INV2, established at construction)."""
from rules.common import *
from spec import tables, inv

LEVEL = 'proof'
FIXTURES = ['F3', 'F1']
HDR = tables.V2_HEADER


def run(ctx, R):
    R.explanation = ('INV2 (len(header) = 16 + be(header[14..16]) >= 16 + size(family of the address value)) is proved at every accepting '
                     'outcome of the v2 parser. Under INV2 and for each address variant the accessor summaries must equal: length = len-16, '
                     'len = len(header), as_bytes = header, is_empty <=> len = 0, address_bytes = header[16..16+size] (whole payload for '
                     'Unspecified), tlv_bytes = header[16+size..], address_family = variant image, Addresses::len / is_empty / '
                     'u16::from(AddressFamily) = size table. C14.D (address value = decoding of the address view) is the C02 layout read '
                     'relative to header[16..].')
    inv.establish_inv2(ctx, R, 'C14.I')
    # C14.D the decoded address value is the big-endian decoding of the address view (header[16..16+size]): accepting rows of the v2 decision table
    from rules.v2common import run_v2_table
    run_v2_table(ctx, R, 'C14', 'C14.D')
    n_acc = views(ctx, R)
    R.floor('accessor summaries x variants', n_acc, 28)
    rest(ctx, R)


def views(ctx, R, names=('length', 'len', 'is_empty', 'address_family', 'address_bytes', 'tlv_bytes', 'as_bytes'), rule=None):
    def rule_for(name):
        return rule or {'length': 'C14.L', 'len': 'C14.L', 'is_empty': 'C14.L', 'as_bytes': 'C14.L', 'address_family': 'C14.F'}.get(name, 'C14.V')
    acc = {}
    for name in names:
        acc[name] = ctx.method(HDR, name)
    n_acc = 0
    for var, size in tables.FAMILY_SIZE.items():
        for name, p in acc.items():
            if p is None:
                continue
            s = P(ctx, p, 0)
            h = ('field', s, 'header')
            a = ('field', s, 'addresses')
            n = T.mk_len(h)
            ev, outs = ctx.entry(p, assume=inv.inv2_atoms(h, a, var))
            if not outs:
                R.require(False, 'C14', name, 'no summary')
                continue
            no_panic_gaps(R, rule_for(name), ev, p, label='%s/%s' % (name, var))
            split = n if var == 'Unspecified' else I(16 + size)
            exp = {
                'length': T.sub(n, I(16)),
                'len': n,
                'is_empty': T.eq0(n),
                'address_family': adtl('v2::model::AddressFamily', var, []),
                'address_bytes': T.mk_slice(h, I(16), split),
                'tlv_bytes': T.mk_slice(h, split, n),
                'as_bytes': h,
            }[name]
            rule = rule_for(name)
            for o in outs:
                found = o['ret']
                ok = equal(found, exp) or (exp[0] in T.SEQ_TAGS and seq_equal_under(o['pc'], found, exp)) or \
                    (T.is_numeric(exp) and T.is_numeric(found) and solver.entails(o['pc'], T.eq0(T.sub(found, exp)))) or \
                    (name == 'is_empty' and found in (T.TRUE, T.FALSE) and solver.entails(o['pc'], exp if found == T.TRUE else T.bnot(exp)))
                if not ok and exp[0] == 'slice' and found[0] == 'slice' and found[1] == exp[1]:
                    ok = solver.entails(o['pc'], T.eq0(T.sub(found[2], exp[2]))) and solver.entails(o['pc'], T.eq0(T.sub(found[3], exp[3])))
                if not ok and name in ('address_bytes', 'tlv_bytes'):
                    # empty views: equal when both are provably empty
                    ok = solver.entails(o['pc'], T.eq0(T.mk_len(found))) and solver.entails(o['pc'], T.eq0(T.mk_len(exp)))
                R.inst(rule, '%s/%s' % (name, var), ok, expected=exp, found=found, entry=p, note=None if ok else 'under ' + pc_text(o['pc'], 10))
                n_acc += 1
                if ok and var == 'IPv4' and name in ('address_bytes', 'tlv_bytes', 'length'):
                    R.sample({'rule': rule, 'entry': p, 'variant': var, 'expected': T.short(exp), 'found': T.short(found), 'assume': 'INV2'})
    return n_acc


def rest(ctx, R):
    # owned copies expose the same views: to_owned copies every field, the header bytes unchanged (rule shared with C16.O)
    from rules import C16 as C16mod
    C16mod.owned_copies(ctx, R, rule='C14.O', only=['v2::model::Header'])
    # partition: address_bytes ++ tlv_bytes = header[16..] follows from the shared split term (checked above per variant)
    # C14.F size table
    for (self_ty, name, trait, fn_exp) in [
        ('v2::model::Addresses', 'len', None, lambda var: I(tables.FAMILY_SIZE[var])),
        ('v2::model::Addresses', 'is_empty', None, lambda var: T.TRUE if var == 'Unspecified' else T.FALSE),
        ('v2::model::Addresses', 'address_family', None, lambda var: adtl('v2::model::AddressFamily', var, [])),
        ('v2::model::AddressFamily', 'byte_length', None, lambda var: NONE if var == 'Unspecified' else SOME(I(tables.FAMILY_SIZE[var]))),
        ('u16', 'from', 'std::convert::From<v2::model::AddressFamily>', lambda var: I(tables.FAMILY_SIZE[var])),
    ]:
        p = ctx.method(self_ty, name, trait)
        ev, outs = ctx.entry(p)
        if not outs:
            continue
        s = P(ctx, p, 0)
        rows = [{'name': '%s::%s/%s' % (self_ty.split('::')[-1], name, var), 'cond': [('isvar', s, var)], 'ret': fn_exp(var)} for var in tables.FAMILY_SIZE]
        check_rows(R, 'C14.F', p, outs, rows)
