"""C06 — version auto-detection agrees with the two dedicated parsers."""
from rules.common import *
from spec import tables, classify

LEVEL = 'proof'
FIXTURES = ['F3']
HR = 'HeaderResult'


def auto_table(ctx, R, rule, only=None):
    """C06.T: truth table of HeaderResult::parse over the (uninterpreted) results of the two parsers."""
    p = ctx.method('HeaderResult<>', 'parse')
    v2 = ctx.method(tables.V2_HEADER, 'try_from', 'std::convert::TryFrom<&[u8]>')
    v1 = ctx.method(tables.V1_HEADER, 'try_from', 'std::convert::TryFrom<&[u8]>')
    if not (p and v1 and v2):
        return None
    ev, outs = ctx.entry(p, abstract={v2: 'v2_try_from', v1: 'v1_try_from'})
    if not outs:
        R.require(False, rule, 'parse', 'no summary')
        return None
    inp = P(ctx, p, 0)
    r2 = ('call', 'abs:v2_try_from', (inp,))
    r1 = ('call', 'abs:v1_try_from', (inp,))
    e2 = ('vfield', r2, 'Err', '0')
    inc = T.FALSE
    for v in sorted(tables.V2_INCOMPLETE):
        inc = T.bor_bool(inc, ('isvar', e2, v))
    term = T.FALSE
    for v in sorted(tables.V2_TERMINAL):
        term = T.bor_bool(term, ('isvar', e2, v))
    V2 = adtl(HR, 'V2', [('0', r2)])
    V1 = adtl(HR, 'V1', [('0', r1)])
    rows = [
        {'name': 'v2 accepts -> V2(v2 result)', 'cond': [('isvar', r2, 'Ok')], 'ret': V2},
        {'name': 'v2 incomplete -> V2(v2 result)', 'cond': [('isvar', r2, 'Err'), inc], 'ret': V2},
        {'name': 'v2 terminal -> V1(v1 result)', 'cond': [('isvar', r2, 'Err'), term], 'ret': V1},
    ]
    if only:
        rows = [dict(r, ret=r['ret'] if any(r['name'].startswith(o) for o in only) else None, optional=True) if not any(r['name'].startswith(o) for o in only) else r for r in rows]
    opaque_free(R, rule, p, outs)
    check_rows(R, rule, p, outs, rows)
    # both parsers are applied to the same, unmodified input (already in the terms r1/r2 above); they are called at most once each
    calls = [c for c in ev.call_sites if c[1] in (v1, v2)]
    R.sample({'rule': rule, 'entry': p, 'abstracted': {'r2': T.short(r2), 'r1': T.short(r1)}, 'outcomes': len(outs)})
    return outs


def run(ctx, R):
    R.explanation = ('C06.T: HeaderResult::parse is summarised with the two parsers as uninterpreted functions of the input; over the atoms '
                     '"v2 result is Ok" and "v2 error variant" (resolved through the inlined PartialResult impls) the returned term must be '
                     'V2(r2) for Ok, V2(r2) for the incomplete variants, V1(r1) for the terminal ones. C06.F: the two From impls wrap unchanged; '
                     'HeaderResult::is_incomplete delegates per variant. C06.X: accepted v2 inputs start with 0x0D, accepted v1 inputs with "P". '
                     'C06.P: parsers take only a shared slice, the crate has no statics and no unsafe.')
    auto_table(ctx, R, 'C06.T')
    # C06.F wrappers
    for v, inner_hdr, err in (('V1', 'v1::model::Header<>', 'v1::error::BinaryParseError'), ('V2', 'v2::model::Header<>', 'v2::error::ParseError')):
        src = 'std::result::Result<%s, %s>' % (inner_hdr.replace('<>', ''), err)
        pf = None
        for f in ctx.fx.raw['fns']:
            if f.get('name') == 'from' and strip(f.get('impl_self', '')) == 'HeaderResult' and strip(f.get('impl_trait', '')) == 'std::convert::From<%s>' % src:
                pf = f['path']
        if not R.require(pf is not None, 'C06.F', 'From<%s>' % src, 'From impl for HeaderResult not found'):
            continue
        ev, outs = ctx.entry(pf)
        if outs:
            exp = adtl(HR, v, [('0', P(ctx, pf, 0))])
            R.inst('C06.F', 'wrap/' + v, len(outs) == 1 and match(outs[0]['ret'], exp), expected=exp, found=outs[0]['ret'], entry=pf)
    classify.flag_algebra(ctx, R, 'C06.F')
    # C06.X disjoint first byte: every accepting v2 outcome requires input[..12] == signature
    v2 = ctx.method(tables.V2_HEADER, 'try_from', 'std::convert::TryFrom<&[u8]>')
    ev, outs = ctx.entry(v2)
    if outs:
        inp = P(ctx, v2, 0)
        sig_eq = T.eq(T.mk_slice(inp, I(0), I(12)), ('bytes', tables.V2_SIG))
        okouts = [o for o in outs if match(o['ret'], OK(ANY))]
        for o in okouts:
            if sig_eq not in o['pc'] and not solver.entails(o['pc'], sig_eq):
                R.inst('C06.X', 'v2-accept-requires-signature', False, expected=sig_eq, found=pc_text(o['pc'], 10), entry=v2)
        R.inst('C06.X', 'v2-accept-requires-signature', True, expected=sig_eq, found='%d accepting outcomes all guarded' % len(okouts), entry=v2)
        R.inst('C06.X', 'first-bytes-differ', tables.V2_SIG[0] != tables.V1_PREFIX[0], expected='0x0D != "P"', found='%#x vs %#x' % (tables.V2_SIG[0], tables.V1_PREFIX[0]), nontrivial=False)
    try:
        from rules import v1model
        v1model.c06_x(ctx, R)
    except ImportError:
        R.assumptions.append('C06.X v1 side (accept requires token 0 == "PROXY") not decided by this build')
    if ctx.tier == 'thorough':
        import witness
        witness.run(ctx, R, 'C06.E6')
    # C06.P purity
    R.inst('C06.P', 'no-statics', len(ctx.fx.raw['statics']) == 0, expected='0 statics', found=str(len(ctx.fx.raw['statics'])), nontrivial=False)
    R.inst('C06.P', 'no-unsafe', ctx.fx.unsafe_blocks == 0, expected='0 unsafe blocks', found=str(ctx.fx.unsafe_blocks), nontrivial=False)
    for name, pth in (('v2', v2), ('v1', ctx.method(tables.V1_HEADER, 'try_from', 'std::convert::TryFrom<&[u8]>'))):
        if pth:
            ins = ctx.fx.fns[pth]['inputs']
            R.inst('C06.P', 'shared-slice-argument/' + name, [strip(x) for x in ins] == ['&[u8]'], expected="['&[u8]']", found=str(ins), entry=pth)
