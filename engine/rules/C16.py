"""C16 — text, byte and FromStr entry points agree; owned copies equal their originals."""
from rules.common import *
from rules import v1model
from spec import tables

LEVEL = 'other'
FIXTURES = ['F3']
H1, H2, TLV = tables.V1_HEADER, tables.V2_HEADER, 'v2::model::TypeLengthValue<>'


def fromstr_delegation(ctx, R, rule):
    m = v1model.model(ctx, R)
    if m.p_str is None:
        return
    own = ctx.method(H1, 'to_owned')
    for self_ty, post in ((tables.V1_ADDR, 'addresses'), ("v1::model::Header<'static>", 'to_owned')):
        p = None
        for f in ctx.fx.raw['fns']:
            if f.get('name') == 'from_str' and f.get('impl_self') == self_ty and strip(f.get('impl_trait', '')) == 'std::str::FromStr':
                p = f['path']
        if not R.require(p is not None, rule, 'FromStr for ' + self_ty, 'impl not found'):
            continue
        ev, outs = ctx.entry(p, abstract={m.p_str: 'try_from_str', own: 'to_owned'} if own else {m.p_str: 'try_from_str'})
        if not outs:
            continue
        s = P(ctx, p, 0)
        r = ('call', 'abs:try_from_str', (s,))
        okv = ('vfield', r, 'Ok', '0')
        val = ('field', okv, 'addresses') if post == 'addresses' else ('call', 'abs:to_owned', (okv,))
        rows = [{'name': 'from_str/%s/ok' % post, 'cond': [('isvar', r, 'Ok')], 'ret': OK(val)},
                {'name': 'from_str/%s/err-unchanged' % post, 'cond': [('isvar', r, 'Err')], 'ret': ERR(('vfield', r, 'Err', '0'))}]
        check_rows(R, rule, p, outs, rows)


def owned_copies(ctx, R, rule='C16.O', only=None):
    n = 0
    for self_ty, adt_path in ((H1, 'v1::model::Header'), (H2, 'v2::model::Header'), (TLV, 'v2::model::TypeLengthValue')):
        if only and adt_path not in only:
            continue
        p = ctx.method(self_ty, 'to_owned')
        a = ctx.fx.adts.get(adt_path)
        if p is None or not R.require(a is not None, rule, adt_path, 'struct missing'):
            continue
        ev, outs = ctx.entry(p)
        if not outs:
            continue
        s = P(ctx, p, 0)
        R.inst(rule, 'to_owned/%s/single-outcome' % adt_path, len(outs) == 1, expected='1', found=str(len(outs)), entry=p)
        r = outs[0]['ret']
        if r[0] != 'adt' or r[1] != adt_path:
            R.inst(rule, 'to_owned/%s/returns-struct' % adt_path, False, expected=adt_path, found=r, entry=p)
            continue
        got = dict(T.adt_items(r))
        for f in a['variants'][0]['fields']:
            name, ty = f['name'], f['ty']
            src = ('field', s, name)
            if 'Cow<' in ty:
                exp = owned(src)
            else:
                exp = src
            R.inst(rule, 'to_owned/%s/field-%s-copied' % (adt_path, name), got.get(name) is not None and match(got[name], exp), expected=exp, found=got.get(name), entry=p)
            n += 1
        # C16.L signature: 'static
        out = ctx.fx.fns[p]['output']
        R.inst(rule.replace('.O', '.L'), 'to_owned/%s/returns-static' % adt_path, "'static" in out, expected="...<'static>", found=out, entry=p, nontrivial=False)
    R.floor('owned-copy field slots', n, 9 if not only else (5 if 'v2::model::Header' in only else 2))
    return n


def independence(ctx, R, rule='C16.L'):
    R.inst(rule, 'no-unsafe', ctx.fx.unsafe_blocks == 0, expected='0 unsafe blocks', found=str(ctx.fx.unsafe_blocks), nontrivial=False)
    bad = []
    for a in ctx.fx.raw['adts']:
        for v in a['variants']:
            for f in v['fields']:
                if any(x in f['ty'] for x in ('Cell<', 'RefCell<', 'UnsafeCell<', '*const', '*mut', 'Mutex<', 'RwLock<', 'Atomic', 'Rc<', 'Arc<')):
                    bad.append('%s.%s: %s' % (a['path'], f['name'], f['ty']))
    R.inst(rule, 'no-interior-mutability-or-raw-pointers-in-value-types', not bad, expected='none', found=str(bad), nontrivial=True)


def run(ctx, R):
    R.explanation = ('C16.S: both v1 entry points are compared with one window table (same window term, same field parser, same outcomes; the byte form wraps '
                     'errors in BinaryParseError::Parse and reports InvalidUtf8 for a window that is not UTF-8; the text form returns Err when the cut at first '
                     'CR + 2 is not a char boundary) - structural sibling agreement. C16.F: both FromStr impls are try_from(&str) then .addresses / .to_owned(), '
                     'errors unchanged. C16.O: each of the three to_owned functions copies every field (Cow fields into Cow::Owned with the same contents); '
                     "derived PartialEq is field-wise and Cow equality compares contents (axiom). C16.L: the return types are <'static>, the crate has no unsafe "
                     'and no interior mutability, so an owned copy cannot alias or change with the input buffer (thorough tier adds compile-fail witnesses).')
    n = v1model.sibling_compare(ctx, R, 'C16.S')
    v1model.v1_no_panic(ctx, R, 'C16.S')
    R.floor('co-satisfiable sibling outcome pairs', n, 6)
    fromstr_delegation(ctx, R, 'C16.F')
    owned_copies(ctx, R)
    independence(ctx, R)
    if ctx.tier == 'thorough':
        import witness
        witness.run(ctx, R, 'C16.E6')
