"""C09 — builder length field is never stale, truncated or silently wrong."""
from rules.builder import *
from rules import C20 as C20mod

LEVEL = 'proof'
FIXTURES = ['F5', 'F8']


def build_rows(ctx, R, rule='C09.B', length_field_only=False):
    p = ctx.method(B, 'build')
    if p is None:
        return
    s = P(ctx, p, 0)
    l = ('field', s, 'length')
    lv = ('vfield', l, 'Some', '0')
    n_rows = 0
    for label, pre, buf, var in prestates(s):
        for lcase in ('Some', 'None'):
            lassume, lbytes0 = length_at_first_write(s, lcase)
            ev, outs = ctx.entry(p, assume=pre + lassume)
            if not outs:
                R.require(False, rule, 'build/' + label, 'no summary')
                continue
            opaque_free(R, rule, p, outs)
            Bf = buf if buf is not None else fixenc(s, var, lbytes0)
            n = T.sub(T.mk_len(Bf), I(16))

            def patched(x):
                return T.mk_concat([T.mk_slice(Bf, I(0), I(14)), x, T.mk_slice(Bf, I(16), T.mk_len(Bf))])
            if lcase == 'Some':
                rows = [{'name': 'build/%s/explicit-length' % label, 'cond': [], 'ret': OK(patched(T.mk_tobytes('tobe', 2, lv)))}]
            else:
                rows = [{'name': 'build/%s/measured-length' % label, 'cond': [T.cmp('Le', n, I(tables.U16_MAX))], 'ret': OK(patched(T.mk_tobytes('tobe', 2, n)))},
                        {'name': 'build/%s/too-long' % label, 'cond': [T.cmp('Gt', n, I(tables.U16_MAX))], 'ret': ERR(ANY), 'optional': buf is None}]
            if length_field_only:
                # C09 proper: only bytes 14..16 (and failure above 65535) are this property's business; the rest of the buffer is C10 / C07
                for o in outs:
                    if match(o['ret'], OK(ANY)):
                        F = T.adt_field(o['ret'], '0')
                        got = T.canon_seq(T.mk_slice(F, I(14), I(16)))
                        if lcase == 'Some':
                            want = T.mk_tobytes('tobe', 2, lv)
                            what = 'explicit-length'
                        else:
                            want = T.mk_tobytes('tobe', 2, T.sub(T.mk_len(F), I(16)))
                            what = 'measured-length'
                        ok = seq_equal_under(o['pc'], got, want)
                        fits = lcase == 'Some' or solver.entails(o['pc'], T.cmp('Le', T.sub(T.mk_len(F), I(16)), I(tables.U16_MAX)))
                        R.inst(rule, 'build/%s/%s/length-field' % (label, what), ok and fits, expected='bytes 14..16 = %s%s' % (T.short(want), '' if lcase == 'Some' else ' and payload <= 65535'),
                               found='bytes 14..16 = %s of %s' % (T.short(got), T.short(F)[:200]), entry=p, note=None if ok and fits else 'under ' + pc_text(o['pc'], 8))
                    else:
                        # failure is allowed only when no explicit length is in force and the payload exceeds 65535
                        okf = lcase == 'None' and not solver.sat(list(o['pc']) + [T.cmp('Le', n, I(tables.U16_MAX))])
                        R.inst(rule, 'build/%s/%s/fails-only-when-too-long' % (label, lcase), okf, expected='Err only if no explicit length and payload > 65535', found=o['ret'], entry=p,
                               note='under ' + pc_text(o['pc'], 8))
                if lcase == 'None' and buf is not None:
                    over = [o for o in outs if solver.sat(list(o['pc']) + [T.cmp('Gt', n, I(tables.U16_MAX))])]
                    R.inst(rule, 'build/%s/too-long-is-refused' % label, len(over) > 0 and all(match(o['ret'], ERR(ANY)) for o in over), expected='Err(_) whenever payload > 65535',
                           found='; '.join(T.short(o['ret'])[:60] for o in over[:3]), entry=p)
                n_rows += 2
                continue
            # compare modulo canonical sequences
            for o in outs:
                o2 = dict(o)
                if match(o['ret'], OK(ANY)):
                    o2['ret'] = OK(T.canon_seq(T.adt_field(o['ret'], '0')))
                for r in rows:
                    if r['ret'] is not None and match(r['ret'], OK(ANY)):
                        r['ret'] = OK(T.canon_seq(T.adt_field(r['ret'], '0')))
                check_rows(R, rule, p, [o2], rows, must_exist=False)
            for r in rows:
                if not r.get('optional'):
                    hit = any(solver.sat(list(o['pc']) + r['cond']) for o in outs)
                    R.inst(rule, r['name'] + '/realised', hit, expected='some outcome', found='none' if not hit else 'yes', entry=p, nontrivial=False)
            n_rows += len(rows)
            # no lossy casts on the way
            for o in outs:
                for nt in o['notes']:
                    if nt[0] == 'lossy-cast' and nt[4].startswith('v2::builder'):
                        R.inst('C09.V', 'no-truncating-cast/' + nt[4], False, expected='checked conversion (or a cast dominated by a <= 65535 guard)',
                               found='%s as %s of %s' % (nt[1], nt[2], nt[3]), entry=p, kind='truncation')
    return n_rows


def run(ctx, R):
    R.explanation = ('C09.B: build is summarised under each abstract pre-state (header absent x 4 address kinds, header present with an arbitrary '
                     'buffer) x explicit length Some/None; its result must be the buffer with bytes 14..16 replaced by the big-endian explicit length '
                     'read at build time, or by the measured payload size when none is in force, and Err when that size exceeds 65535. C09.S: '
                     'set_length assigns length := into(arg) and nothing else. C09.V: the three size-limited encoders refuse before writing '
                     '(C20.R re-evaluated here) and no truncating cast survives on any builder path. Because every method transformer is checked '
                     'on arbitrary pre-states, the result holds for every call history.')
    n = build_rows(ctx, R, length_field_only=True) or 0
    R.floor('build scenarios', n, 10)
    # C09.S
    p = ctx.method(B, 'set_length')
    ev, outs = ctx.entry(p)
    if outs:
        s, a = P(ctx, p, 0), P(ctx, p, 1)
        R.inst('C09.S', 'set_length/single-outcome', len(outs) == 1, expected='1', found=str(len(outs)), entry=p)
        for o in outs:
            f = fields_of(o['ret'], s)
            if f is None:
                R.inst('C09.S', 'set_length/returns-builder', False, expected='Builder', found=o['ret'], entry=p)
                continue
            exp = ('call', 'into:std::option::Option<u16>', (a,))
            R.inst('C09.S', 'set_length/length:=into(arg)', f['length'] == exp, expected=exp, found=f['length'], entry=p)
            unchanged_fields(R, 'C09.S', p, 'set_length', f, s, except_=('length',))
    # C09.V per-value limits: the size-limited encoders (rules shared with C20)
    impls = {strip(im['self']): im for im in C20mod.encoder_impls(ctx)}
    for self_ty, limit_on, E in (('v2::model::TypeLengthValue', lambda s: ('field', s, 'value'), lambda s, v: enc.tlv_enc(('field', s, 'kind'), ('field', s, 'value'))),
                                 ('(T, &[u8])', lambda s: ('field', s, '1'), lambda s, v: enc.tlv_enc(('call', 'into:u8', (('field', s, '0'),)), ('field', s, '1'))),
                                 ('[u8]', lambda s: s, lambda s, v: s)):
        im = impls.get(self_ty)
        if not R.require(im is not None, 'C09.V', self_ty, 'size-limited encoder impl missing'):
            continue
        pth = [it['path'] for it in im['items'] if it['name'] == 'write_to'][0]
        C20mod.check_encoder(ctx, R, pth, self_ty, E, limit_on=limit_on, limits_only=True)
        ev, outs = ctx.entry(pth)
        for o in outs or []:
            for nt in o['notes']:
                if nt[0] == 'lossy-cast':
                    R.inst('C09.V', 'no-truncating-cast/' + self_ty, False, expected='cast dominated by a <= 65535 guard', found='%s as %s of %s' % (nt[1], nt[2], nt[3]), entry=pth, kind='truncation')
