"""C08 — v1 formatting produces canonical lines that parse back to the same addresses (structural part)."""
from rules.common import *
from rules import v1model, C16 as C16mod
from spec import tables

LEVEL = 'other'
FIXTURES = ['F7', 'F3']
A1, H1 = tables.V1_ADDR, tables.V1_HEADER
WIDTH = {'std::net::Ipv4Addr': 15, 'std::net::Ipv6Addr': 39, 'u16': 5}


def fmt_state(o):
    for v, loc in o['params']:
        if loc is not None:
            return o['store'][loc]
    return None


def run(ctx, R):
    R.explanation = ('C08.F: Display for Addresses writes, per kind, exactly PROXY SP keyword [SP source-address SP destination-address SP source-port SP '
                     'destination-port] CRLF with default-formatted ({}) arguments in the field order the parser fills from tokens 2..5 (C01.P), the '
                     'keyword being the one the parser maps to that kind. C08.L: literal bytes + the maximal Display widths of the argument types (15/39/5) '
                     '<= 107. C08.H: Display for Header writes the stored text, which is the parsed window (C01.P). C08.S: both FromStr impls are '
                     'try_from(&str) followed by .addresses / .to_owned(). NOT decided: that Display and FromStr of Ipv4Addr/Ipv6Addr/u16 are mutually '
                     'inverse (axiom), nor that the parser accepts every canonical line (undecided part of C01) - hence not the round trip itself.')
    p = ctx.method(A1, 'fmt', 'std::fmt::Display')
    ev, outs = ctx.entry(p)
    if outs:
        s, f = P(ctx, p, 0), P(ctx, p, 1)
        base = ('call', 'fmt_out', (f,))
        SP = bytes([tables.V1_SEP])
        n = 0
        for var, kw, ipty in (('Unknown', tables.V1_UNKNOWN, None), ('Tcp4', tables.V1_TCP4, 'std::net::Ipv4Addr'), ('Tcp6', tables.V1_TCP6, 'std::net::Ipv6Addr')):
            pieces = [('bytes', tables.V1_PREFIX + SP + kw)]
            width = len(tables.V1_PREFIX) + 1 + len(kw)
            if ipty:
                a = ('vfield', s, var, '0')
                for fld, ty in (('source_address', ipty), ('destination_address', ipty), ('source_port', 'u16'), ('destination_port', 'u16')):
                    pieces += [('bytes', SP), ('call', 'fmt:display', (('field', a, fld),))]
                    width += 1 + WIDTH[ty]
            pieces.append(('bytes', tables.V1_SUFFIX))
            width += 2
            exp = T.mk_concat([base] + pieces)
            hit = 0
            for o in outs:
                if not solver.sat(list(o['pc']) + [('isvar', s, var)]):
                    continue
                hit += 1
                st = fmt_state(o)
                ok = st is not None and st[0] == 'adt' and st[1] == '$Formatter' and equal(T.adt_field(st, 'out'), exp) and match(o['ret'], OK(ANY))
                R.inst('C08.F', 'template/' + var, ok, expected=exp, found=T.adt_field(st, 'out') if st is not None and st[0] == 'adt' else st, entry=p)
                n += 1
                if ok:
                    R.sample({'rule': 'C08.F', 'kind': var, 'written': T.short(T.adt_field(st, 'out'))})
            R.inst('C08.F', 'template/%s/realised' % var, hit > 0, expected='>= 1 outcome', found=str(hit), entry=p, nontrivial=False)
            R.inst('C08.L', 'max-length/' + var, width <= tables.V1_MAX, expected='<= %d' % tables.V1_MAX, found=str(width), entry=p, nontrivial=False)
        R.floor('formatted kinds', n, 3)
        # widths of the found arguments: every formatted argument must be of a type with a known maximal width and default options
        for o in outs:
            st = fmt_state(o)
            if st is None or st[0] != 'adt':
                continue
            for t in T.subterms(T.adt_field(st, 'out')):
                if t[0] == 'call' and t[1].startswith('fmt:') and t[1] != 'fmt:display':
                    R.inst('C08.F', 'default-format-options', False, expected='{} (Display, no flags)', found=t, entry=p)
                if t[0] == 'call' and t[1] == 'fmt_unknown':
                    R.inst('C08.F', 'template-decodable', False, expected="a template in rustc's compact encoding with default placeholders", found=t, entry=p, kind='unprovable')
    # argument types (for the width bound) come from the field types of ip::IPv4 / ip::IPv6
    for adt_path, ipty in (('ip::IPv4', 'std::net::Ipv4Addr'), ('ip::IPv6', 'std::net::Ipv6Addr')):
        a = ctx.fx.adts.get(adt_path)
        if R.require(a is not None, 'C08.L', adt_path, 'struct missing'):
            tys_ = {f['name']: f['ty'] for f in a['variants'][0]['fields']}
            want = {'source_address': ipty, 'destination_address': ipty, 'source_port': 'u16', 'destination_port': 'u16'}
            R.inst('C08.L', 'field-types/' + adt_path, tys_ == want, expected=str(want), found=str(tys_), entry=adt_path)
    # C08.H echo
    p = ctx.method(H1, 'fmt', 'std::fmt::Display')
    ev, outs = ctx.entry(p)
    if outs:
        s, f = P(ctx, p, 0), P(ctx, p, 1)
        exp = T.mk_concat([('call', 'fmt_out', (f,)), ('field', s, 'header')])
        for o in outs:
            st = fmt_state(o)
            ok = st is not None and st[0] == 'adt' and st[1] == '$Formatter' and equal(T.adt_field(st, 'out'), exp) and match(o['ret'], OK(ANY))
            R.inst('C08.H', 'header-display-echoes-the-text', ok, expected=exp, found=st, entry=p)
    m = v1model.model(ctx, R)
    ev, outs = m.fp_outs()
    if outs:
        for o in v1model.ok_outcomes(outs):
            hdr = T.adt_field(T.adt_field(o['ret'], '0'), 'header')
            R.inst('C08.H', 'stored-text-is-the-parsed-window/' + str(v1model.variant_of(o)), match(hdr, borrowed(m.text())), expected=borrowed(m.text()), found=hdr, entry=m.fp)
    # formatter / parser agreement on keyword and field order: parser side
    v1model.c01_provenance_only(ctx, R, 'C08.F')
    C16mod.fromstr_delegation(ctx, R, 'C08.S')
    # the auto-detecting entry point reaches the text parser for every text line: the v2 parser rejects anything that does not carry its
    # signature with the terminal Prefix error, whatever the length (rows of the v2 decision table), and parse() then returns V1(v1 result)
    from rules import v2common, C06 as C06mod
    from spec import classify
    v2common.run_v2_table(ctx, R, 'C08', 'C08.V')
    C06mod.auto_table(ctx, R, 'C08.V', only=['v2 terminal'])
    classify.classification(ctx, R, 'C08.V', only='terminal', enums=[tables.V2_ERR])
    # canonical lines are not rejected: at the level of token predicates the parser rejects no line satisfying the acceptance condition,
    # and a formatted line satisfies it (Display of u16 has no sign / leading zero and parses back: axiom)
    v1model.c01_accept(ctx, R, 'C08.A', soundness=False)
