"""Builder transformers (R-builder): shared by C07, C09, C10, C13."""
from rules.common import *
from spec import tables, enc

B = 'v2::builder::Builder'
FIELDS = ['header', 'version_command', 'address_family_protocol', 'addresses', 'length', 'additional_capacity']
WT = 'v2::builder::WriteToHeader::write_to'


def contract(t):
    """Trait contract of WriteToHeader::write_to established by C20.E for every impl: on Ok the writer holds old ++ enc(x).
    Rewrites  post:write_to#1(x, Writer{bytes: b}).bytes  ->  b ++ enc(x)."""
    def rw(x):
        x = T.map_children(x, rw)
        if x[0] == 'field' and x[2] == 'bytes' and x[1][0] == 'call' and x[1][1] == 'post:%s#1' % WT:
            item, w = x[1][2]
            wb = T.adt_field(w, 'bytes') if w[0] == 'adt' else ('field', w, 'bytes')
            return T.mk_concat([wb, ('call', 'enc', (item,))])
        if x[0] == 'concat':
            return T.mk_concat(list(x[1]))
        return x
    return rw(t)


def fields_of(st, s):
    """Builder value -> dict field -> term (the untouched symbolic builder stands for its own fields)"""
    if st[0] == 'adt' and st[1] == B:
        return dict(T.adt_items(st))
    if st == s:
        return {f: ('field', s, f) for f in FIELDS}
    return None


def prestates(s):
    """abstract pre-states of the builder: (label, assumptions, buffer term or None, address variant or None)"""
    hdr = ('field', s, 'header')
    adr = ('field', s, 'addresses')
    out = []
    for var in tables.FAMILY_SIZE:
        out.append(('fresh/' + var, [('isvar', hdr, 'None'), ('isvar', adr, var)], None, var))
    out.append(('started', [('isvar', hdr, 'Some')], ('vfield', hdr, 'Some', '0'), None))
    return out


def fixenc(s, var, length_term):
    """bytes written by the first use: fixed part ++ address block, with the length field as stored at that moment"""
    return T.mk_concat([enc.fixed(('field', s, 'version_command'), ('field', s, 'address_family_protocol'), length_term),
                        enc.addr_enc(('field', s, 'addresses'), var)])


def length_at_first_write(s, lcase):
    l = ('field', s, 'length')
    if lcase == 'Some':
        return [('isvar', l, 'Some')], T.mk_tobytes('tobe', 2, ('vfield', l, 'Some', '0'))
    return [('isvar', l, 'None')], ('bytes', b'\x00\x00')


def unchanged_fields(R, rule, p, label, f, s, except_=()):
    ok = True
    for name in FIELDS:
        if name in except_:
            continue
        same = f.get(name) == ('field', s, name)
        R.inst(rule, '%s/%s-unchanged' % (label, name), same, expected=('field', s, name), found=f.get(name), entry=p)
        ok = ok and same
    return ok


def signature_ok(ctx, R, rule, p, consumes=True, fallible=True):
    fn = ctx.fx.fns[p]
    ins = [strip(x) for x in fn['inputs']]
    out = strip(fn['output'])
    ok = ins and ins[0] == B
    want = 'std::result::Result<%s, std::io::Error>' % B if fallible else B
    R.inst(rule, 'by-value-self-and-result/' + fn['name'], ok and out == want, expected='fn(self: Builder, ..) -> ' + want,
           found='fn(%s) -> %s' % (', '.join(ins), out), entry=p)
