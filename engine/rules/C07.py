"""C07 — v2 builder emits the specified wire format and its output parses back unchanged."""
from rules.builder import *
from rules import C09 as C09mod, C10 as C10mod, C20 as C20mod
from spec import v2parse

LEVEL = 'proof'
FIXTURES = ['F3', 'F8']
ADDR = 'v2::model::Addresses'


def codes(ctx, R, rule='C07.E'):
    n = 0
    for adt_path, table in (('v2::model::Version', tables.VERSION), ('v2::model::Command', tables.COMMANDS),
                            ('v2::model::AddressFamily', tables.FAMILIES), ('v2::model::Protocol', tables.TRANSPORTS)):
        a = ctx.fx.adts.get(adt_path)
        if not R.require(a is not None, rule, adt_path, 'enum missing'):
            continue
        found = {v['discr']: v['name'] for v in a['variants']}
        R.inst(rule, 'codes/' + adt_path, found == table, expected=str(table), found=str(found), entry=adt_path)
        n += len(found)
    a = ctx.fx.adts.get('v2::model::Type')
    if R.require(a is not None, rule, 'v2::model::Type', 'enum missing'):
        found = {v['name']: v['discr'] for v in a['variants']}
        R.inst(rule, 'codes/v2::model::Type', found == tables.TLV_TYPES, expected=str(tables.TLV_TYPES), found=str(found), entry='v2::model::Type')
        n += len(found)
    # BitOr impls: bit-or of the two discriminants
    for lhs, rhs in (('Version', 'Command'), ('Command', 'Version'), ('AddressFamily', 'Protocol'), ('Protocol', 'AddressFamily')):
        p = ctx.method('v2::model::' + lhs, 'bitor', 'std::ops::BitOr<v2::model::%s>' % rhs)
        ev, outs = ctx.entry(p)
        if outs:
            a, b = P(ctx, p, 0), P(ctx, p, 1)
            exp = T.bitop('bor', ('discr', a), ('discr', b))
            R.inst(rule, 'bitor/%s|%s' % (lhs, rhs), len(outs) == 1 and outs[0]['ret'] == exp, expected=exp, found=outs[0]['ret'], entry=p)
            n += 1
    p = ctx.method('u8', 'from', 'std::convert::From<v2::model::Type>')
    ev, outs = ctx.entry(p)
    if outs:
        exp = ('discr', P(ctx, p, 0))
        R.inst(rule, 'u8::from(Type)', len(outs) == 1 and outs[0]['ret'] == exp, expected=exp, found=outs[0]['ret'], entry=p)
    return n


def built_input(cmd_code, fam_code, trn_code, var, a, payload):
    """reference wire bytes for (command, family/addresses a, transport, payload bytes)"""
    size = tables.FAMILY_SIZE[var]
    L = T.add(I(size), T.mk_len(payload))
    return T.mk_concat([enc.fixed(I(0x20 | cmd_code), I(fam_code | trn_code), T.mk_tobytes('tobe', 2, L)), enc.addr_enc(a, var), payload]), L


def parse_back(ctx, R, rule='C07.P'):
    p = ctx.method(tables.V2_HEADER, 'try_from', 'std::convert::TryFrom<&[u8]>')
    tlvb = ctx.method(tables.V2_HEADER, 'tlv_bytes')
    n = 0
    a = ('param', 90, 'addresses')
    pay = ('param', 91, 'payload')
    for fcode, var in tables.FAMILIES.items():
        for ccode, cmd in tables.COMMANDS.items():
            for tcode, trn in tables.TRANSPORTS.items():
                IN, L = built_input(ccode, fcode, tcode, var, a, pay)
                assume = [T.cmp('Le', L, I(tables.U16_MAX)), ('isvar', a, var)]
                ev, outs = ctx.entry(p, args=[IN], assume=assume)
                if ev is not None:
                    no_panic_gaps(R, rule, ev, p, label='parse-back/%s/%s/%s' % (cmd, var, trn))
                if not outs:
                    R.require(False, rule, 'parse-back/%s/%s/%s' % (cmd, var, trn), 'no summary')
                    continue
                av = ('vfield', a, var, '0')
                if var == 'Unspecified':
                    dec = adtl(ADDR, 'Unspecified', [])
                elif var == 'Unix':
                    dec = adtl(ADDR, 'Unix', [('0', adtl('v2::model::Unix', 'Unix', [('source', ('field', av, 'source')), ('destination', ('field', av, 'destination'))]))])
                else:
                    ipty = 'ip::' + var
                    dec = adtl(ADDR, var, [('0', v2parse.ip(ipty, ('field', av, 'source_address'), ('field', av, 'destination_address'),
                                                              ('field', av, 'source_port'), ('field', av, 'destination_port')))])
                exp = OK(adtl('v2::model::Header', 'Header', [
                    ('header', borrowed(IN)), ('version', adtl('v2::model::Version', 'Two', [])),
                    ('command', adtl('v2::model::Command', cmd, [])), ('protocol', adtl('v2::model::Protocol', trn, [])), ('addresses', dec)]))
                ok = len(outs) == 1 and match(outs[0]['ret'], exp)
                R.inst(rule, 'parse-back/%s/%s/%s' % (cmd, var, trn), ok, expected=exp, found=outs[0]['ret'] if len(outs) == 1 else '%d outcomes: %s' % (len(outs), '; '.join(T.short(o['ret'])[:80] for o in outs[:4])), entry=p)
                n += 1
                if ok and var != 'Unspecified' and tlvb:
                    ev2, o2 = ctx.entry(tlvb, args=[T.adt_field(outs[0]['ret'], '0')], assume=assume)
                    okk = o2 is not None and len(o2) >= 1 and all(seq_equal_under(x['pc'], x['ret'], pay) for x in o2)
                    R.inst(rule, 'tlv-section-is-the-written-payload/%s/%s/%s' % (cmd, var, trn), okk, expected=pay, found=o2[0]['ret'] if o2 else 'none', entry=tlvb)
                if ok and len(R.samples) < 6 and var == 'IPv4':
                    R.sample({'rule': rule, 'built': T.short(IN), 'parsed': T.short(outs[0]['ret'])[:600]})
    return n


def tlv_step_mirror(ctx, R, rule='C07.M'):
    """step case of the parse-back induction: iterating at the start of enc(tlv) yields that tlv and advances by its size"""
    p = ctx.method('v2::model::TypeLengthValues<>', 'next', 'std::iter::Iterator')
    if p is None:
        return
    X, Y = ('param', 92, 'before'), ('param', 93, 'after')
    k, v = ('param', 94, 'kind'), ('param', 95, 'value')
    T.TYPES[k] = 'u8'
    T.NUMERIC[k] = True
    section = T.mk_concat([X, enc.tlv_enc(k, v), Y])
    st0 = adtl('v2::model::TypeLengthValues', 'TypeLengthValues', [('bytes', section), ('offset', T.mk_len(X))])
    import sumeval, axioms
    ev = sumeval.Ev(ctx.fx, axioms)
    loc = ('H', 0, 'self')
    s = sumeval.St()
    s.store[loc] = st0
    s.pc.append(T.cmp('Le', T.mk_len(v), I(tables.U16_MAX)))
    ev.loc_types[loc] = ('path', 'v2::model::TypeLengthValues', ())
    axioms.CURRENT_EV = ev
    outs = ev.eval_fn(p, [('ref', loc, ())], s, {}, 0)
    exp = SOME(OK(adtl('v2::model::TypeLengthValue', 'TypeLengthValue', [('kind', k), ('value', borrowed(v))])))
    ok = len(outs) == 1 and match(outs[0][1], exp)
    fin = outs[0][0].store[loc] if outs else None
    ok2 = ok and fin[0] == 'adt' and T.adt_field(fin, 'offset') == T.add(T.mk_len(X), T.add(I(3), T.mk_len(v)))
    R.inst(rule, 'iterating-enc(tlv)-yields-tlv', ok, expected=exp, found=outs[0][1] if outs else 'none', entry=p)
    R.inst(rule, 'cursor-advances-by-len(enc(tlv))', ok2, expected='offset + 3 + len(value)', found=T.adt_field(fin, 'offset') if fin is not None and fin[0] == 'adt' else fin, entry=p)


def run(ctx, R):
    R.explanation = ('C07.E: declared discriminants of Version/Command/AddressFamily/Protocol/Type equal the registered codes; BitOr impls are the '
                     'bit-or of discriminants. C07.H/L/W: the bytes emitted by build for a fresh builder are SIG ++ [vc] ++ [afp] ++ be16(length) ++ '
                     'enc(addresses) ++ payloads (C09.B rows and C10.I transformers re-evaluated; encoders C20.E for Addresses, TLV and tuple). '
                     'C07.P parse-back: the v2 parser is analysed on the *reference wire bytes* SIG ++ [0x20|cmd] ++ [fam|trn] ++ be16(size+len(P)) '
                     '++ enc(a) ++ P for all 24 control combinations with symbolic addresses a and payload P (size+len(P) <= 65535): its single '
                     'outcome must be Ok with the same command, transport, addresses and bytes, and tlv_bytes() = P when a family is specified. '
                     'C07.M: iterating at the start of enc(tlv) inside any section yields that tlv and advances by its size (step case of the '
                     'induction over the TLV list).')
    n = codes(ctx, R)
    R.floor('codes and BitOr impls', n, 26)
    C09mod.build_rows(ctx, R, rule='C07.H')
    n = parse_back(ctx, R)
    R.floor('parse-back combinations', n, 24)
    tlv_step_mirror(ctx, R)
    # encoders used by the wire format
    impls = {strip(im['self']): im for im in C20mod.encoder_impls(ctx)}
    im = impls.get('v2::model::Addresses')
    if R.require(im is not None, 'C07.W', 'Addresses encoder', 'impl missing'):
        pth = [it['path'] for it in im['items'] if it['name'] == 'write_to'][0]
        C20mod.check_encoder(ctx, R, pth, 'Addresses', lambda s, var: enc.addr_enc(s, var), variants=list(tables.FAMILY_SIZE))
    im = impls.get('v2::model::TypeLengthValue')
    if R.require(im is not None, 'C07.W', 'TLV encoder', 'impl missing'):
        pth = [it['path'] for it in im['items'] if it['name'] == 'write_to'][0]
        C20mod.check_encoder(ctx, R, pth, 'TypeLengthValue', lambda s, v: enc.tlv_enc(('field', s, 'kind'), ('field', s, 'value')), limit_on=lambda s: ('field', s, 'value'))
    # every builder method transformer (C10.I instances): the fixed part is written exactly once, before the first payload, whatever the first call is
    C10mod.transformers(ctx, R)
    # write_tlv / with_addresses transformers (C10.I instances)
    p = ctx.method(B, 'write_tlv')
    if p:
        k, v = P(ctx, p, 1), P(ctx, p, 2)
        C10mod.check_append(ctx, R, p, 'write_tlv', None, lambda o: enc.tlv_enc(('call', 'into:u8', (k,)), v), [])
    p = ctx.method(B, 'with_addresses')
    ev, outs = ctx.entry(p)
    if outs:
        a = [P(ctx, p, i) for i in range(3)]
        conv = ('call', 'into:v2::model::Addresses', (a[2],))
        inv_fam = {v: k for k, v in tables.FAMILIES.items()}
        rows = []
        for var in tables.FAMILY_SIZE:
            exp = adtl(B, 'Builder', [('header', NONE), ('version_command', a[0]), ('address_family_protocol', T.bitop('bor', ('discr', a[1]), I(inv_fam[var]))),
                                      ('addresses', conv), ('length', NONE), ('additional_capacity', I(0))])
            rows.append({'name': 'with_addresses/' + var, 'cond': [('isvar', conv, var)], 'ret': exp})
        check_rows(R, 'C07.H', p, outs, rows)
