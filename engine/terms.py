"""Term language of the value-flow analysis (DESIGN.md 4.1) and its normaliser.

Terms are plain nested tuples, first element is the tag.  Integer-valued terms are kept as
linear forms over atoms so that syntactically different but arithmetically equal code shapes
normalise to the same term.

  ('int', v)                          integer / bool / char constant
  ('lin', c0, ((atom, coef), ...))    c0 + sum coef*atom   (atoms sorted by repr)
  ('bytes', b'..')                    constant byte string or str (utf-8 bytes)
  ('param', i, name)                  i-th parameter of the analysed entry point
  ('field', base, name)               field of a symbolic struct value
  ('vfield', base, variant, name)     field of a symbolic enum value known to be `variant`
  ('discr', base)                     discriminant of a symbolic enum value
  ('adt', path, variant, "n1,n2", (t1, t2))  constructed struct / enum value (field names comma-joined)
  ('tuple', (t,...)) ('arr', (t,...)) ('repeat', t, n)
  ('len', seq) ('at', seq, idx) ('slice', seq, lo, hi) ('concat', (seq,...))
  ('be', (byte terms hi..lo))         big-endian integer assembled from bytes
  ('le', (byte terms lo..hi))
  ('tobe', width, t) ('tole', width, t)   byte sequence of an integer (length = width)
  ('band', a, b) ('bor', a, b) ('bxor', a, b) ('shl', a, k) ('shr', a, k)
  ('trunc', bits, t)                  lossy integer cast that could not be proved lossless
  ('cmp', op, a, b)                   op in ge, eq on linear forms is normalised to ('ge0', lin) / ('eq0', lin)
  ('ge0', lin) ('eq0', lin) ('not', b) ('and', a, b) ('or', a, b)
  ('eq', a, b)                        equality of non-integer values (sequences, enums)
  ('isvar', t, name)                  symbolic enum value is variant `name`
  ('call', name, (args...))           uninterpreted function of its arguments (pure)
  ('ref', loc, path)                  mutable reference to a storage location
  ('mu', id)                          loop-carried unknown
  ('opaque', why)                     value the analysis cannot follow (poisons dependants)
"""
from fractions import Fraction

TRUE = ('int', 1)
FALSE = ('int', 0)
UNIT = ('tuple', ())


def is_int(t):
    return t[0] == 'int'


def I(v):
    return ('int', int(v))


def key(t):
    return repr(t)


# ----------------------------------------------------------------------------------------
# linear forms

def to_lin(t):
    """-> (c0, {atom: coef})"""
    if t[0] == 'int':
        return t[1], {}
    if t[0] == 'lin':
        return t[1], dict(t[2])
    return 0, {t: 1}


def from_lin(c0, coefs):
    items = [(a, c) for a, c in coefs.items() if c != 0]
    if not items:
        return ('int', c0)
    if c0 == 0 and len(items) == 1 and items[0][1] == 1:
        return items[0][0]
    items.sort(key=lambda ac: key(ac[0]))
    return ('lin', c0, tuple(items))


def is_numeric(t):
    return t[0] in ('int', 'lin', 'len', 'at', 'be', 'le', 'band', 'bor', 'bxor', 'shl', 'shr', 'trunc', 'byte') or NUMERIC.get(t, False)


BOUNDS = {}     # symbolic integer term -> (lo, hi)
KNOWN_LEN = {}  # symbolic sequence term -> constant length (e.g. octets of an address)
NUMERIC = {}   # term -> True for symbolic atoms known to be integers (params/fields of int type)
TYPES = {}     # term -> rust type string (lifetimes stripped) for symbolic atoms


def add(a, b):
    ca, ma = to_lin(a)
    cb, mb = to_lin(b)
    for k, v in mb.items():
        ma[k] = ma.get(k, 0) + v
    return from_lin(ca + cb, ma)


def neg(a):
    ca, ma = to_lin(a)
    return from_lin(-ca, {k: -v for k, v in ma.items()})


def sub(a, b):
    return add(a, neg(b))


def mulc(a, k):
    ca, ma = to_lin(a)
    return from_lin(ca * k, {x: v * k for x, v in ma.items()})


def mul(a, b):
    if a[0] == 'int':
        return mulc(b, a[1])
    if b[0] == 'int':
        return mulc(a, b[1])
    return ('call', 'mul', tuple(sorted((a, b), key=key)))


# ----------------------------------------------------------------------------------------
# booleans / comparisons

def ge0(l):
    """l >= 0"""
    if l[0] == 'int':
        return TRUE if l[1] >= 0 else FALSE
    c0, m = to_lin(l)
    # normalise by gcd of coefficients (integers): floor division of constant
    from math import gcd
    g = 0
    for v in m.values():
        g = gcd(g, abs(v))
    if g > 1:
        m = {k: v // g for k, v in m.items()}
        c0 = c0 // g  # floor: sum >= -c0/g  <=> sum >= ceil(-c0/g) = -floor(c0/g)
    return ('ge0', from_lin(c0, m))


def eq0(l):
    if l[0] == 'int':
        return TRUE if l[1] == 0 else FALSE
    c0, m = to_lin(l)
    # canonical sign: first atom positive
    items = sorted(m.items(), key=lambda ac: key(ac[0]))
    if items and items[0][1] < 0:
        c0 = -c0
        m = {k: -v for k, v in m.items()}
    return ('eq0', from_lin(c0, m))


def cmp(op, a, b):
    """op in Lt Le Gt Ge Eq Ne on integer terms."""
    if op == 'Lt':   # a < b  <=> b - a - 1 >= 0
        return ge0(add(sub(b, a), I(-1)))
    if op == 'Le':
        return ge0(sub(b, a))
    if op == 'Gt':
        return ge0(add(sub(a, b), I(-1)))
    if op == 'Ge':
        return ge0(sub(a, b))
    if op == 'Eq':
        return eq0(sub(a, b))
    if op == 'Ne':
        return bnot(eq0(sub(a, b)))
    raise ValueError(op)


def bnot(t):
    if t[0] == 'int':
        return FALSE if t[1] else TRUE
    if t[0] == 'not':
        return t[1]
    if t[0] == 'ge0':      # not(l >= 0) <=> -l - 1 >= 0
        return ge0(add(neg(t[1]), I(-1)))
    return ('not', t)


def band_bool(a, b):
    if a == FALSE or b == FALSE:
        return FALSE
    if a == TRUE:
        return b
    if b == TRUE:
        return a
    return ('and', a, b)


def bor_bool(a, b):
    if a == TRUE or b == TRUE:
        return TRUE
    if a == FALSE:
        return b
    if b == FALSE:
        return a
    return ('or', a, b)


def eq(a, b):
    """Equality of two values of the same (arbitrary) type."""
    if has_opaque(a) or has_opaque(b):
        # two opaque values are never known to be equal, however alike their descriptions
        return ('opaque', 'comparison of values outside the modelled vocabulary')
    if a == b:
        return TRUE
    if is_numeric(a) and is_numeric(b):
        return eq0(sub(a, b))
    if a[0] == 'bytes' and b[0] == 'bytes':
        return TRUE if a[1] == b[1] else FALSE
    # equality with the empty sequence is emptiness
    if a == ('bytes', b'') and b[0] not in ('adt', 'tuple', 'opaque'):
        return eq0(mk_len(b))
    if b == ('bytes', b'') and a[0] not in ('adt', 'tuple', 'opaque'):
        return eq0(mk_len(a))
    if a[0] == 'adt' and b[0] == 'adt' and a[1] == b[1]:
        if a[2] != b[2]:
            return FALSE
        r = TRUE
        for x, y in zip(a[4], b[4]):
            r = band_bool(r, eq(x, y))
        return r
    # sequences of provably different constant length
    la, lb = seqlen(a, strict=False), seqlen(b, strict=False)
    if la is not None and lb is not None and la[0] == 'int' and lb[0] == 'int' and la[1] != lb[1]:
        return FALSE
    x, y = sorted((a, b), key=key)
    return ('eq', x, y)


# ----------------------------------------------------------------------------------------
# sequences

SEQ_TAGS = ('bytes', 'slice', 'concat', 'arr', 'repeat', 'tobe', 'tole')


def seqlen(s, strict=True):
    t = s[0]
    if t == 'bytes':
        return I(len(s[1]))
    if t == 'arr':
        return I(len(s[1]))
    if t == 'repeat':
        return s[2]
    if t in ('tobe', 'tole'):
        return I(s[1])
    if t == 'slice':
        return sub(s[3], s[2])
    if t == 'concat':
        r = I(0)
        for p in s[1]:
            r = add(r, seqlen(p))
        return r
    if t == 'adt' and s[1].endswith('Cow') and len(s[4]) == 1:
        return seqlen(s[4][0])
    if s in KNOWN_LEN:
        return I(KNOWN_LEN[s])
    if not strict:
        return None
    return ('len', s)


def mk_len(s):
    return seqlen(s)


def mk_at(s, i):
    t = s[0]
    if t == 'slice':
        return mk_at(s[1], add(s[2], i))
    if i[0] == 'int':
        k = i[1]
        if t == 'bytes' and 0 <= k < len(s[1]):
            return I(s[1][k])
        if t == 'arr' and 0 <= k < len(s[1]):
            return s[1][k]
        if t == 'repeat':
            return s[1]
        if t in ('tobe', 'tole'):
            return byte_of(s, k)
    if t == 'concat':
        off = I(0)
        for p in s[1]:
            n = seqlen(p)
            past = sub(i, add(off, n))
            if past[0] == 'int' and past[1] >= 0:
                off = add(off, n)
                continue
            d = sub(i, off)
            if d[0] == 'int' and d[1] >= 0 and n[0] == 'int' and d[1] < n[1]:
                return mk_at(p, d)
            break
    return ('at', s, i)


def byte_of(s, k):
    """k-th byte of ('tobe'|'tole', width, t)"""
    w, t = s[1], s[2]
    if t[0] == 'int':
        v = t[1] & ((1 << (8 * w)) - 1)
        bs = v.to_bytes(w, 'big' if s[0] == 'tobe' else 'little')
        return I(bs[k])
    if w == 1:
        return t
    # inverse of be/le assembly
    if s[0] == 'tobe' and t[0] == 'be' and len(t[1]) == w:
        return t[1][k]
    if s[0] == 'tole' and t[0] == 'le' and len(t[1]) == w:
        return t[1][k]
    return mk_byte(w - 1 - k if s[0] == 'tobe' else k, t)


def mk_slice(s, lo, hi):
    """s[lo..hi] (hi exclusive)."""
    if s[0] == 'slice':
        return mk_slice(s[1], add(s[2], lo), add(s[2], hi))
    n = seqlen(s, strict=False) if s[0] != 'slice' else None
    full_len = seqlen(s)
    if lo == I(0) and hi == full_len:
        return s
    if lo == hi:
        return ('bytes', b'')
    if s[0] == 'bytes' and lo[0] == 'int' and hi[0] == 'int' and 0 <= lo[1] <= hi[1] <= len(s[1]):
        return ('bytes', s[1][lo[1]:hi[1]])
    if s[0] == 'arr' and lo[0] == 'int' and hi[0] == 'int' and 0 <= lo[1] <= hi[1] <= len(s[1]):
        return ('arr', s[1][lo[1]:hi[1]])
    if s[0] == 'concat':
        r = _slice_concat(s, lo, hi, full_len)
        if r is not None:
            return r
    return ('slice', s, lo, hi)


def nonneg(t):
    """provably >= 0 from its shape: non-negative constant plus positive multiples of lengths"""
    c0, m = to_lin(t)
    return c0 >= 0 and all(k > 0 and a[0] == 'len' for a, k in m.items())


def _slice_concat(s, lo, hi, full_len):
    """slice of a concatenation, by walking the parts with (possibly symbolic) running offsets"""
    parts = list(s[1])
    off = I(0)
    i = 0
    while i < len(parts):
        n = seqlen(parts[i])
        past = sub(lo, add(off, n))
        if past[0] == 'int' and past[1] >= 0:
            off = add(off, n)
            i += 1
            continue
        break
    cut = sub(lo, off)
    if cut[0] != 'int' or cut[1] < 0:
        return None
    rest = parts[i:]
    if not rest:
        return ('bytes', b'') if (hi == full_len or hi == lo) and cut[1] == 0 else None
    res = []
    pos = off
    for j, p in enumerate(rest):
        n = seqlen(p)
        start = cut if j == 0 else I(0)
        end_here = sub(hi, pos)            # hi relative to this part
        after = sub(hi, add(pos, n))
        if after == I(0):
            res.append(mk_slice(p, start, n) if start != I(0) else p)
            return mk_concat(res)
        if nonneg(after):
            res.append(mk_slice(p, start, n) if start != I(0) else p)
            pos = add(pos, n)
            continue
        if end_here[0] == 'int' and n[0] == 'int' and 0 <= end_here[1] <= n[1]:
            if end_here[1] > start[1]:
                res.append(mk_slice(p, start, end_here))
            return mk_concat(res)
        if end_here[0] == 'int' and end_here[1] >= 0 and p[0] == 'slice':
            res.append(mk_slice(p, start, end_here))
            return mk_concat(res)
        return None
    return None


def flat_parts(parts):
    out = []
    for p in parts:
        if p[0] == 'concat':
            out.extend(flat_parts(p[1]))
        elif p[0] == 'bytes' and len(p[1]) == 0:
            continue
        elif p[0] == 'arr' and len(p[1]) == 0:
            continue
        else:
            out.append(p)
    return out


def as_elems(p):
    """sequence part -> list of element terms if it has a known small constant length"""
    if p[0] == 'bytes' and len(p[1]) <= 256:
        return [I(b) for b in p[1]]
    if p[0] == 'arr':
        return list(p[1])
    if p[0] in ('tobe', 'tole') and p[1] <= 16:
        return [byte_of(p, k) for k in range(p[1])]
    return None


def mk_concat(parts):
    parts = flat_parts(parts)
    # merge adjacent slices of the same base, adjacent constant runs
    out = []
    for p in parts:
        if out:
            q = out[-1]
            if q[0] == 'slice' and p[0] == 'slice' and q[1] == p[1] and q[3] == p[2]:
                out[-1] = mk_slice_raw(q[1], q[2], p[3])
                continue
            if q[0] == 'bytes' and p[0] == 'bytes':
                out[-1] = ('bytes', q[1] + p[1])
                continue
        out.append(p)
    if not out:
        return ('bytes', b'')
    if len(out) == 1:
        return out[0]
    return ('concat', tuple(out))


def mk_slice_raw(base, lo, hi):
    if lo == I(0) and hi == seqlen(base):
        return base
    return ('slice', base, lo, hi)


def canon_seq(s):
    """Canonical element-wise form used to compare encodings: a concat whose parts are either
    single-element ('arr',(e,)) items for small constant-length parts, or opaque sequence parts.
    Runs of at(b,i), at(b,i+1).. are re-assembled into slices."""
    parts = flat_parts([s])
    elems = []
    for p in parts:
        es = as_elems(p)
        if es is not None:
            elems.extend(('e', e) for e in es)
        elif p[0] == 'slice' and sub(p[3], p[2])[0] == 'int' and 0 <= sub(p[3], p[2])[1] <= 256:
            n = sub(p[3], p[2])[1]
            elems.extend(('e', mk_at(p[1], add(p[2], I(k)))) for k in range(n))
        elif p[0] == 'repeat' and p[2][0] == 'int' and p[2][1] <= 256:
            elems.extend(('e', p[1]) for _ in range(p[2][1]))
        else:
            elems.append(('s', p))
    # re-assemble runs
    out = []
    i = 0
    while i < len(elems):
        k, v = elems[i]
        if k == 'e' and v[0] == 'at':
            base, idx = v[1], v[2]
            j = i + 1
            while j < len(elems) and elems[j][0] == 'e' and elems[j][1] == ('at', base, add(idx, I(j - i))):
                j += 1
            if j - i >= 2:
                out.append(mk_slice_raw(base, idx, add(idx, I(j - i))))
                i = j
                continue
        if k == 'e' and v[0] == 'int':
            j = i
            bs = bytearray()
            while j < len(elems) and elems[j][0] == 'e' and elems[j][1][0] == 'int' and 0 <= elems[j][1][1] < 256:
                bs.append(elems[j][1][1])
                j += 1
            if j > i:
                out.append(('bytes', bytes(bs)))
                i = j
                continue
        out.append(('arr', (v,)) if k == 'e' else v)
        i += 1
    return mk_concat(out)


# ----------------------------------------------------------------------------------------
# integers <-> bytes

def mk_be(byte_terms):
    bs = tuple(byte_terms)
    if all(b[0] == 'int' for b in bs):
        v = 0
        for b in bs:
            v = (v << 8) | (b[1] & 0xFF)
        return I(v)
    # be(tobe(x)[0..w]) = x
    if all(b[0] == 'at' and b[1][0] == 'tobe' for b in bs):
        src = bs[0][1]
        if src[1] == len(bs) and all(b[1] == src and b[2] == I(k) for k, b in enumerate(bs)):
            return src[2]
    if len(bs) == 1:
        return bs[0]
    if all(b[0] == 'byte' and b[2] == bs[0][2] and b[1] == len(bs) - 1 - i for i, b in enumerate(bs)):
        x = bs[0][2]
        from_width = {'u16': 2, 'u32': 4, 'u64': 8, 'usize': 8, 'u128': 16}.get(TYPES.get(x))
        if from_width == len(bs):
            return x
    return ('be', bs)


def mk_le(byte_terms):
    bs = tuple(byte_terms)
    if all(b[0] == 'int' for b in bs):
        v = 0
        for b in reversed(bs):
            v = (v << 8) | (b[1] & 0xFF)
        return I(v)
    if len(bs) == 1:
        return bs[0]
    return ('le', bs)


def mk_tobytes(kind, width, t):
    if t[0] == 'int':
        v = t[1] & ((1 << (8 * width)) - 1)
        return ('bytes', v.to_bytes(width, 'big' if kind == 'tobe' else 'little'))
    if width == 1:
        return ('arr', (t,))
    if kind == 'tobe' and t[0] == 'be' and len(t[1]) == width:
        return ('arr', tuple(t[1]))
    if kind == 'tole' and t[0] == 'le' and len(t[1]) == width:
        return ('arr', tuple(t[1]))
    return (kind, width, t)


def mk_byte(k, x):
    """byte number k (0 = least significant) of the integer x:  (x >> 8k) & 0xFF"""
    if x[0] == 'int':
        return I((x[1] >> (8 * k)) & 0xFF)
    if x[0] == 'be' and k < len(x[1]):
        return x[1][len(x[1]) - 1 - k]
    if x[0] == 'shr' and x[2][0] == 'int' and x[2][1] % 8 == 0:
        return mk_byte(k + x[2][1] // 8, x[1])
    if x[0] == 'byte':
        return x if k == 0 else I(0)
    if k == 0 and is_byte(x):
        return x
    return ('byte', k, x)


def is_byte(t):
    if t[0] == 'byte':
        return True
    if t[0] == 'at':
        return True
    if t[0] == 'band' and t[2][0] == 'int' and 0 <= t[2][1] <= 255:
        return True
    if t[0] == 'int':
        return 0 <= t[1] <= 255
    return TYPES.get(t) == 'u8'


def _byte_parts(t):
    """t as an or-combination of bytes shifted by multiples of 8 -> {shift: byte term} (None if not of that shape)"""
    if t[0] == 'bor':
        x, y = _byte_parts(t[1]), _byte_parts(t[2])
        if x is None or y is None or set(x) & set(y):
            return None
        x.update(y)
        return x
    if t[0] == 'shl' and t[2][0] == 'int' and t[2][1] % 8 == 0:
        inner = _byte_parts(t[1])
        if inner is None:
            return None
        return {k + t[2][1]: v for k, v in inner.items()}
    if t[0] == 'be':
        n = len(t[1])
        return {8 * (n - 1 - i): b for i, b in enumerate(t[1])}
    if is_byte(t) and t[0] != 'int':
        return {0: t}
    return None


def _assemble(parts):
    if parts is None or len(parts) < 2:
        return None
    shifts = sorted(parts)
    if shifts != [8 * i for i in range(len(shifts))]:
        return None
    return mk_be([parts[s] for s in reversed(shifts)])


def bitop(op, a, b):
    if op == 'bor' and not (a[0] == 'int' and b[0] == 'int'):
        r = _assemble(_byte_parts(('bor', a, b)))
        if r is not None:
            return r
    if a[0] == 'int' and b[0] == 'int':
        if op == 'band': return I(a[1] & b[1])
        if op == 'bor': return I(a[1] | b[1])
        if op == 'bxor': return I(a[1] ^ b[1])
    if op in ('band', 'bor', 'bxor'):
        if a[0] == 'int':
            a, b = b, a     # constant second
        elif b[0] != 'int':
            a, b = sorted((a, b), key=key)
        if op == 'band' and b == I(0): return I(0)
        if op == 'band' and b == I(0xFF): return mk_byte(0, a)
        if op == 'bor' and b == I(0): return a
        if op == 'band' and a[0] == 'band' and a[2][0] == 'int' and b[0] == 'int':
            return bitop('band', a[1], I(a[2][1] & b[1]))
    return (op, a, b)


def shift(op, a, k, bits=None):
    if a[0] == 'int' and k[0] == 'int':
        return I(a[1] << k[1]) if op == 'shl' else I(a[1] >> k[1])
    if op == 'shl' and k[0] == 'int' and a[0] == 'shr' and a[2] == k:
        # (x >> n) << n clears the low n bits of an unsigned x: x & ~(2^n - 1)
        x = a[1]
        w = 8 if is_byte(x) else {'u8': 8, 'u16': 16, 'u32': 32, 'u64': 64, 'usize': 64}.get(TYPES.get(x))
        if w is not None and 0 <= k[1] < w:
            return bitop('band', x, I(((1 << w) - 1) & ~((1 << k[1]) - 1)))
    return (op, a, k)


# ----------------------------------------------------------------------------------------
# structure

def mk_adt(path, variant, fields):
    """fields: iterable of (name, term)"""
    fields = list(fields)
    # eta: rebuilding a variant from its own projections  V(x<V>.f0, x<V>.f1, ..)  is x itself
    if fields and all(v[0] == 'vfield' and v[2] == variant and v[3] == n for n, v in fields):
        base = fields[0][1][1]
        if all(v[1] == base for _, v in fields) and TYPES.get(base, path) == path:
            return base
    return ('adt', path, variant, ','.join(n for n, _ in fields), tuple(v for _, v in fields))


def adt_names(t):
    return t[3].split(',') if t[3] else []


def adt_items(t):
    return list(zip(adt_names(t), t[4]))


def adt_field(t, name):
    for n, v in zip(adt_names(t), t[4]):
        if n == name:
            return v
    raise KeyError(name)


def adt_with(t, name, val):
    return ('adt', t[1], t[2], t[3], tuple(val if n == name else v for n, v in zip(adt_names(t), t[4])))


def short(t, depth=0):
    """Human-readable rendering for reports / evidence samples."""
    k = t[0]
    if k == 'int': return str(t[1])
    if k == 'lin':
        s = []
        for a, c in t[2]:
            s.append(('%s' if c == 1 else '-%s' if c == -1 else '%d*%%s' % c) % short(a))
        if t[1] or not s:
            s.append(str(t[1]))
        return '(' + ' + '.join(s).replace('+ -', '- ') + ')'
    if k == 'bytes':
        return repr(t[1])
    if k == 'param': return t[2] or 'arg%d' % t[1]
    if k == 'field': return '%s.%s' % (short(t[1]), t[2])
    if k == 'vfield': return '%s<%s>.%s' % (short(t[1]), t[2], t[3])
    if k == 'discr': return 'tag(%s)' % short(t[1])
    if k == 'adt':
        name = t[1].split('::')[-1] + ('::' + t[2] if t[2] and t[2] != t[1].split('::')[-1] else '')
        if not t[4]: return name
        return '%s{%s}' % (name, ', '.join('%s: %s' % (n, short(v)) for n, v in adt_items(t)))
    if k in ('tuple', 'arr'):
        o, c = ('(', ')') if k == 'tuple' else ('[', ']')
        return o + ', '.join(short(x) for x in t[1]) + c
    if k == 'repeat': return '[%s; %s]' % (short(t[1]), short(t[2]))
    if k == 'len': return 'len(%s)' % short(t[1])
    if k == 'at': return ('(%s)[%s]' if t[1][0] == 'concat' else '%s[%s]') % (short(t[1]), short(t[2]))
    if k == 'slice': return ('(%s)[%s..%s]' if t[1][0] == 'concat' else '%s[%s..%s]') % (short(t[1]), short(t[2]), short(t[3]))
    if k == 'concat': return ' ++ '.join(short(x) for x in t[1])
    if k in ('be', 'le'): return '%s(%s)' % (k, ', '.join(short(x) for x in t[1]))
    if k in ('tobe', 'tole'): return '%s%d(%s)' % (k, t[1] * 8, short(t[2]))
    if k in ('band', 'bor', 'bxor', 'shl', 'shr'):
        sym = {'band': '&', 'bor': '|', 'bxor': '^', 'shl': '<<', 'shr': '>>'}[k]
        return '(%s %s %s)' % (short(t[1]), sym, short(t[2]) if not (t[2][0] == 'int' and k in ('band', 'bor')) else hex(t[2][1]))
    if k == 'trunc': return 'trunc%d(%s)' % (t[1], short(t[2]))
    if k == 'byte': return 'byte%d(%s)' % (t[1], short(t[2]))
    if k == 'ge0': return '%s >= 0' % short(t[1])
    if k == 'eq0': return '%s == 0' % short(t[1])
    if k == 'not': return '!(%s)' % short(t[1])
    if k in ('and', 'or'): return '(%s %s %s)' % (short(t[1]), '&&' if k == 'and' else '||', short(t[2]))
    if k == 'eq': return '%s == %s' % (short(t[1]), short(t[2]))
    if k == 'isvar': return '%s is %s' % (short(t[1]), t[2])
    if k == 'call': return '%s(%s)' % (t[1], ', '.join(short(x) for x in t[2]))
    if k == 'ref': return '&mut %s%s' % (t[1], ''.join('.' + str(p) for p in t[2]))
    if k == 'mu': return 'mu(%s)' % (t[1],)
    if k == 'opaque': return 'OPAQUE<%s>' % (t[1],)
    if k == 'closure': return 'closure<%s>' % t[1]
    if k == 'fn': return 'fn<%s>' % t[1]
    return repr(t)


def children(t):
    """direct subterms"""
    for x in t[1:]:
        if isinstance(x, tuple) and x:
            if isinstance(x[0], str):
                if x[0] in TAGS:
                    yield x
            else:
                for y in x:
                    if isinstance(y, tuple) and y:
                        if isinstance(y[0], str):
                            if y[0] in TAGS:
                                yield y
                        elif isinstance(y[0], tuple):   # (atom, coef) pair of a linear form
                            yield y[0]


def tree_size(t, cap=1 << 30):
    """number of nodes of t as a tree (shared sub-objects counted once per occurrence), computed over the DAG; saturates at cap"""
    memo = {}

    def go(x):
        k = id(x)
        r = memo.get(k)
        if r is not None:
            return r
        n = 1
        for c in children(x):
            n += go(c)
            if n >= cap:
                n = cap
                break
        memo[k] = n
        return n
    return go(t)


def subterms(t):
    """all subterms (pre-order)"""
    stack = [t]
    while stack:
        x = stack.pop()
        yield x
        stack.extend(children(x))


def map_children(t, f):
    """rebuild t with f applied to each direct subterm (no re-normalisation)"""
    out = [t[0]]
    for x in t[1:]:
        if isinstance(x, tuple) and x:
            if isinstance(x[0], str):
                out.append(f(x) if x[0] in TAGS else x)
            else:
                ys = []
                for y in x:
                    if isinstance(y, tuple) and y:
                        if isinstance(y[0], str):
                            ys.append(f(y) if y[0] in TAGS else y)
                        elif isinstance(y[0], tuple):
                            ys.append((f(y[0]),) + tuple(y[1:]))
                        else:
                            ys.append(y)
                    else:
                        ys.append(y)
                out.append(tuple(ys))
        else:
            out.append(x)
    return tuple(out)


TAGS = {'byte', 'int', 'lin', 'bytes', 'param', 'field', 'vfield', 'discr', 'adt', 'tuple', 'arr', 'repeat', 'len', 'at',
        'slice', 'concat', 'be', 'le', 'tobe', 'tole', 'band', 'bor', 'bxor', 'shl', 'shr', 'trunc', 'cmp', 'ge0',
        'eq0', 'not', 'and', 'or', 'eq', 'isvar', 'call', 'ref', 'mu', 'opaque', 'closure', 'fn'}


def has_opaque(t):
    return any(x[0] == 'opaque' for x in subterms(t))


def mentions(t, what):
    return any(x == what for x in subterms(t))


def rebuild(t, sub_):
    """re-normalise t bottom-up through the smart constructors, replacing any subterm found in dict sub_"""
    memo = {}

    def go(x):
        if x in memo:
            return memo[x]
        if x in sub_:
            r = sub_[x]
            memo[x] = r
            return r
        k = x[0]
        if k == 'lin':
            r = ('int', x[1])
            for a, c in x[2]:
                r = add(r, mulc(go(a), c))
        elif k == 'len':
            r = mk_len(go(x[1]))
        elif k == 'at':
            r = mk_at(go(x[1]), go(x[2]))
        elif k == 'slice':
            r = mk_slice(go(x[1]), go(x[2]), go(x[3]))
        elif k == 'concat':
            r = mk_concat([go(p) for p in x[1]])
        elif k == 'be':
            r = mk_be([go(p) for p in x[1]])
        elif k == 'le':
            r = mk_le([go(p) for p in x[1]])
        elif k in ('tobe', 'tole'):
            r = mk_tobytes(k, x[1], go(x[2]))
        elif k in ('band', 'bor', 'bxor'):
            r = bitop(k, go(x[1]), go(x[2]))
        elif k in ('shl', 'shr'):
            r = shift(k, go(x[1]), go(x[2]))
        elif k == 'byte':
            r = mk_byte(x[1], go(x[2]))
        elif k == 'ge0':
            r = ge0(go(x[1]))
        elif k == 'eq0':
            r = eq0(go(x[1]))
        elif k == 'not':
            r = bnot(go(x[1]))
        elif k == 'and':
            r = band_bool(go(x[1]), go(x[2]))
        elif k == 'or':
            r = bor_bool(go(x[1]), go(x[2]))
        elif k == 'eq':
            r = eq(go(x[1]), go(x[2]))
        else:
            r = map_children(x, go)
        memo[x] = r
        return r
    return go(t)


def pinned(pc):
    """atoms that the conjunction pc pins to a constant through a single-atom equality  c0 + k*atom == 0"""
    out = {}
    for a in pc:
        if a[0] == 'eq0':
            c0, m = to_lin(a[1])
            if len(m) == 1:
                (atom, k), = m.items()
                if c0 % k == 0:
                    out[atom] = I(-c0 // k)
    return out


def bytes_of_same(v):
    """v = be/le(byte_k(x)...) over all n bytes of one x in the right order -> (x, n), else None"""
    if v[0] not in ('be', 'le') or not all(b[0] == 'byte' and b[2] == v[1][0][2] for b in v[1]):
        return None
    n = len(v[1])
    order = [b[1] for b in v[1]]
    want = list(range(n - 1, -1, -1)) if v[0] == 'be' else list(range(n))
    return (v[1][0][2], n) if order == want else None
