"""Tiny parser / unifier for rustc's printed type strings (used only to resolve generic trait
calls against the crate's impl table and to pick axioms by self type)."""
import re

_LT = re.compile(r"'[A-Za-z_][A-Za-z0-9_]*\s*,?\s*|'_\s*,?\s*")


def strip_lifetimes(s):
    s = re.sub(r"&'[A-Za-z_0-9]+\s+", "&", s)
    s = re.sub(r"::<'[A-Za-z_0-9]+>", "", s)
    s = re.sub(r"<'[A-Za-z_0-9]+>", "", s)
    s = re.sub(r"<'[A-Za-z_0-9]+,\s*", "<", s)
    s = re.sub(r",\s*'[A-Za-z_0-9]+(?=[,>])", "", s)
    s = s.replace("::<>", "").replace("<>", "")
    return s


class P:
    def __init__(self, s):
        self.s = s
        self.i = 0

    def ws(self):
        while self.i < len(self.s) and self.s[self.i] == ' ':
            self.i += 1

    def peek(self, k=1):
        return self.s[self.i:self.i + k]

    def ty(self):
        self.ws()
        s = self.s
        if self.peek() == '&':
            self.i += 1
            self.ws()
            mut = False
            if self.peek(4) == 'mut ':
                mut = True
                self.i += 4
            return ('ref', mut, self.ty())
        if self.peek() == '*':
            m = re.match(r"\*(const|mut) ", s[self.i:])
            self.i += m.end()
            return ('ptr', m.group(1) == 'mut', self.ty())
        if self.peek() == '[':
            self.i += 1
            t = self.ty()
            self.ws()
            if self.peek() == ';':
                self.i += 1
                j = s.index(']', self.i)
                n = s[self.i:j].strip()
                self.i = j + 1
                return ('array', t, n)
            assert self.peek() == ']', s
            self.i += 1
            return ('slice', t)
        if self.peek() == '(':
            self.i += 1
            items = []
            while True:
                self.ws()
                if self.peek() == ')':
                    self.i += 1
                    break
                items.append(self.ty())
                self.ws()
                if self.peek() == ',':
                    self.i += 1
            return ('tuple', tuple(items))
        if self.peek() == '{':
            # closure / opaque: take until matching '}'
            depth = 0
            j = self.i
            while j < len(s):
                if s[j] == '{': depth += 1
                if s[j] == '}':
                    depth -= 1
                    if depth == 0: break
                j += 1
            name = s[self.i:j + 1]
            self.i = j + 1
            return ('path', name, ())
        if self.peek() == '<':
            # qualified path <T as Trait>::Name : keep raw
            depth = 0
            j = self.i
            while j < len(s):
                if s[j] == '<': depth += 1
                if s[j] == '>':
                    depth -= 1
                    if depth == 0: break
                j += 1
            k = j + 1
            m = re.match(r"(::[A-Za-z_][A-Za-z0-9_]*)*", s[k:])
            k += m.end()
            name = s[self.i:k]
            self.i = k
            return ('path', name, ())
        if self.peek(4) == 'dyn ' or self.peek(5) == 'impl ':
            j = self.i
            depth = 0
            while j < len(s) and not (depth == 0 and s[j] in ',>)]'):
                if s[j] in '<([': depth += 1
                if s[j] in '>)]': depth -= 1
                j += 1
            name = s[self.i:j]
            self.i = j
            return ('path', name, ())
        m = re.match(r"[A-Za-z_!][A-Za-z0-9_]*(::[A-Za-z_][A-Za-z0-9_]*)*", s[self.i:])
        if not m:
            raise ValueError("cannot parse type %r at %d" % (s, self.i))
        name = m.group(0)
        self.i += m.end()
        args = ()
        if self.peek(3) == '::<':
            self.i += 2
        if self.peek() == '<':
            self.i += 1
            items = []
            while True:
                self.ws()
                if self.peek() == '>':
                    self.i += 1
                    break
                items.append(self.ty())
                self.ws()
                if self.peek() == ',':
                    self.i += 1
            args = tuple(items)
            # trailing ::Assoc
            m2 = re.match(r"(::[A-Za-z_][A-Za-z0-9_]*)+", s[self.i:])
            if m2:
                name = name + '<..>' + m2.group(0)
                self.i += m2.end()
        return ('path', name, args)


_cache = {}


def parse(s):
    s0 = s
    if s0 in _cache:
        return _cache[s0]
    s = strip_lifetimes(s)
    try:
        p = P(s)
        t = p.ty()
    except Exception:
        t = ('path', s, ())
    _cache[s0] = t
    return t


def show(t):
    k = t[0]
    if k == 'ref': return '&' + ('mut ' if t[1] else '') + show(t[2])
    if k == 'ptr': return '*' + ('mut ' if t[1] else 'const ') + show(t[2])
    if k == 'slice': return '[' + show(t[1]) + ']'
    if k == 'array': return '[' + show(t[1]) + '; ' + t[2] + ']'
    if k == 'tuple': return '(' + ', '.join(show(x) for x in t[1]) + (',' if len(t[1]) == 1 else '') + ')'
    if k == 'path':
        return t[1] + ('<' + ', '.join(show(x) for x in t[2]) + '>' if t[2] else '')
    return str(t)


def subst(t, m):
    """substitute generic parameter names (dict name -> type tree)"""
    k = t[0]
    if k == 'path':
        if not t[2] and t[1] in m:
            return m[t[1]]
        return ('path', t[1], tuple(subst(x, m) for x in t[2]))
    if k in ('ref', 'ptr'): return (k, t[1], subst(t[2], m))
    if k == 'slice': return ('slice', subst(t[1], m))
    if k == 'array':
        n = t[2]
        if n in m and m[n][0] == 'path' and not m[n][2]:
            n = m[n][1]                 # const generic length
        return ('array', subst(t[1], m), n)
    if k == 'tuple': return ('tuple', tuple(subst(x, m) for x in t[1]))
    return t


def unify(pat, t, params, out):
    """match pattern `pat` (with generic names in `params`) against concrete type t"""
    if pat[0] == 'path' and not pat[2] and pat[1] in params:
        if pat[1] in out:
            return out[pat[1]] == t
        out[pat[1]] = t
        return True
    if pat[0] != t[0]:
        return False
    k = pat[0]
    if k == 'path':
        if pat[1] != t[1] or len(pat[2]) != len(t[2]):
            return False
        return all(unify(a, b, params, out) for a, b in zip(pat[2], t[2]))
    if k in ('ref', 'ptr'):
        return pat[1] == t[1] and unify(pat[2], t[2], params, out)
    if k == 'slice':
        return unify(pat[1], t[1], params, out)
    if k == 'array':
        return pat[2] == t[2] and unify(pat[1], t[1], params, out)
    if k == 'tuple':
        return len(pat[1]) == len(t[1]) and all(unify(a, b, params, out) for a, b in zip(pat[1], t[1]))
    return pat == t


def is_concrete(t, params):
    k = t[0]
    if k == 'path':
        if not t[2] and t[1] in params:
            return False
        return all(is_concrete(x, params) for x in t[2])
    if k in ('ref', 'ptr'): return is_concrete(t[2], params)
    if k in ('slice', 'array'): return is_concrete(t[1], params)
    if k == 'tuple': return all(is_concrete(x, params) for x in t[1])
    return True


def head(t):
    """outermost nominal name"""
    while t[0] in ('ref', 'ptr'):
        t = t[2]
    if t[0] == 'path':
        return t[1]
    return t[0]


def strip_refs(t):
    while t[0] in ('ref', 'ptr'):
        t = t[2]
    return t
