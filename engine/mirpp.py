"""Pretty-printer for the facts MIR (debugging aid)."""
import json, sys


def pl(p):
    s = "_%d" % p["l"]
    for e in p["p"]:
        k = e["k"]
        if k == "deref": s = "(*%s)" % s
        elif k == "field": s = "%s.%s" % (s, e["name"])
        elif k == "index": s = "%s[_%d]" % (s, e["l"])
        elif k == "cindex": s = "%s[%s%d]" % (s, "-" if e["end"] else "", e["off"])
        elif k == "subslice": s = "%s[%d..%s%d]" % (s, e["from"], "-" if e["end"] else "", e["to"])
        elif k == "downcast": s = "(%s as %s)" % (s, e["v"])
        else: s = "%s.?%s" % (s, e.get("dbg"))
    return s


def op(o):
    if "copy" in o: return pl(o["copy"])
    if "move" in o: return "move " + pl(o["move"])
    if "const" in o:
        c = o["const"]
        for k in ("int", "str", "slice_bytes", "ref_bytes", "raw_bytes", "fn", "fnptr"):
            if k in c: return "const %s(%r):%s" % (k, c[k], c["ty"])
        if c.get("zst"): return "const zst:%s" % c["ty"]
        return "const ?%s" % json.dumps(c)
    return "?" + json.dumps(o)


def rv(r):
    k = r["k"]
    if k == "use": return op(r["op"])
    if k == "ref": return "&%s %s" % (r["bk"], pl(r["place"]))
    if k == "rawptr": return "&raw %s" % pl(r["place"])
    if k == "cast": return "%s as %s (%s)" % (op(r["op"]), r["ty"], r["ck"])
    if k == "binop": return "%s(%s, %s)" % (r["op"], op(r["a"]), op(r["b"]))
    if k == "unop": return "%s(%s)" % (r["op"], op(r["a"]))
    if k == "discr": return "discriminant(%s)" % pl(r["place"])
    if k == "repeat": return "[%s; %s]" % (op(r["op"]), r["n"])
    if k == "agg":
        ops = ", ".join(op(x) for x in r["ops"])
        if r["ak"] == "adt": return "%s::%s{%s}(%s)" % (r["adt"], r["variant"], ",".join(r["fields"]), ops)
        if r["ak"] == "closure": return "closure %s(%s)" % (r["closure"], ops)
        return "%s(%s)" % (r["ak"], ops)
    return "?" + json.dumps(r)


def callee(c):
    if "indirect" in c: return "indirect(%s)" % op(c["indirect"])
    s = c["display"]
    if c.get("rpath") and c["rpath"] != c["path"]:
        s += " => " + c["rpath"]
    return s


def term(t):
    k = t["k"]
    if k == "goto": return "goto bb%d" % t["t"]
    if k == "switch":
        return "switch(%s) [%s, otherwise: bb%d]" % (op(t["op"]), ", ".join("%d: bb%d" % (v, b) for v, b in zip(t["vals"], t["targets"])), t["otherwise"])
    if k == "call":
        return "%s = %s(%s) -> %s" % (pl(t["dest"]), callee(t["callee"]), ", ".join(op(a) for a in t["args"]), "bb%s" % t["t"] if t["t"] is not None else "!")
    if k == "assert":
        m = t["msg"]
        if m["k"] == "bounds": ms = "bounds(len=%s, index=%s)" % (op(m["len"]), op(m["index"]))
        elif m["k"] == "overflow": ms = "overflow(%s, %s, %s)" % (m["op"], op(m["a"]), op(m["b"]))
        else: ms = m.get("dbg")
        return "assert(%s == %s, %s) -> bb%d" % (op(t["cond"]), t["expected"], ms, t["t"])
    if k == "drop": return "drop(%s) -> bb%d" % (pl(t["place"]), t["t"])
    return k


def pp(fn, out=sys.stdout):
    out.write("fn %s  [%s]\n" % (fn["path"], fn["span"]))
    for i, l in enumerate(fn["locals"]):
        out.write("  let _%d: %s%s\n" % (i, l["ty"], "  // " + l["name"] if l["name"] else ""))
    for i, b in enumerate(fn["blocks"]):
        if b["cleanup"]: continue
        out.write(" bb%d:\n" % i)
        for s in b["stmts"]:
            if s["k"] == "assign": out.write("    %s = %s\n" % (pl(s["place"]), rv(s["rv"])))
            elif s["k"] == "dead": out.write("    dead _%d\n" % s["l"])
            else: out.write("    ?%s\n" % json.dumps(s))
        out.write("    %s   // %s\n" % (term(b["term"]), b["term"]["span"]))


if __name__ == "__main__":
    f = json.load(open(sys.argv[1]))
    for fn in f["fns"]:
        if len(sys.argv) < 3 or any(a in fn["path"] for a in sys.argv[2:]):
            pp(fn)
