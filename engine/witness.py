"""E6: rustc's type / borrow checker as a decision procedure for compile-fail / compile-pass witness pairs.
Nothing is executed: passing twins are `no_run`, failing twins must fail with the stated error code."""
import os, re, shutil, subprocess, tempfile
import facts as F

VERIF = os.path.dirname(os.path.dirname(os.path.abspath(__file__)))


def run(ctx, R, rule):
    repo = os.environ.get('PPP_REPO', '/repo')
    tmp = tempfile.mkdtemp(prefix='pppwitness-')
    try:
        os.makedirs(os.path.join(tmp, 'src'))
        shutil.copy(os.path.join(VERIF, 'witness', 'lib.rs'), os.path.join(tmp, 'src', 'lib.rs'))
        with open(os.path.join(tmp, 'Cargo.toml'), 'w') as fh:
            fh.write('[package]\nname = "pppwitness"\nversion = "0.0.0"\nedition = "2021"\n\n[workspace]\n\n[dependencies]\nppp = { path = "%s" }\n' % repo)
        shutil.copy(os.path.join(repo, 'Cargo.lock'), os.path.join(tmp, 'Cargo.lock'))
        env = dict(os.environ, CARGO_NET_OFFLINE='true', CARGO_TARGET_DIR=os.path.join(tmp, 'tgt'))
        env.pop('RUSTC_WORKSPACE_WRAPPER', None)
        p = subprocess.run(['cargo', '+nightly', 'test', '--doc', '--offline'], cwd=tmp, env=env, stdout=subprocess.PIPE, stderr=subprocess.STDOUT, text=True)
        out = p.stdout
        results = re.findall(r"test src/lib\.rs - (\w+) \(line (\d+)\)( - compile fail| - compile)? \.\.\. (\w+)", out)
        n = 0
        for name, line, kind, verdict in results:
            n += 1
            R.inst(rule, 'witness/%s/%s' % (name, (kind or '').strip(' -') or 'run'), verdict == 'ok', expected='ok', found=verdict, entry='witness/lib.rs:%s' % line, nontrivial=True)
        R.floor('witness doctests', n, 8)
        if p.returncode != 0 and all(v == 'ok' for _, _, _, v in results):
            R.violation(rule, 'witness-crate', 'unprovable', note='cargo test --doc failed: ' + out[-800:])
    finally:
        shutil.rmtree(tmp, ignore_errors=True)
