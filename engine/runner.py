import importlib, json, os, sys, time, traceback
import facts as F, framework, sumeval, axioms, terms as T, tys

LEVELS = {}   # pid -> evidence level, filled from rules modules (LEVEL attribute)


class Ctx:
    def __init__(self, fx, R, tier, fx_rel=None):
        self.fx = fx
        self.fx_rel = fx_rel
        self.R = R
        self.tier = tier
        self.cache = {}
        self.max_depth = 20     # recursion guard only: the crate has no recursive functions, wrappers and closures add frames

    # ---- locating public API items without depending on lifetime names or private paths
    def method(self, self_ty, name, trait=None):
        self_ty = tys.strip_lifetimes(self_ty)
        hits = []
        for f in self.fx.raw['fns']:
            if f.get('name') != name or 'impl_self' not in f:
                continue
            if tys.strip_lifetimes(f['impl_self']) != self_ty:
                continue
            ft = f.get('impl_trait')
            if trait is None and ft is None:
                hits.append(f)
            elif trait is not None and ft is not None and tys.strip_lifetimes(ft) == tys.strip_lifetimes(trait):
                hits.append(f)
        if len(hits) == 1:
            return hits[0]['path']
        self.R.violation('anchor', '%s::%s%s' % (self_ty, name, ' (%s)' % trait if trait else ''), 'anchor-missing',
                         note='public item not found (or ambiguous: %d hits)' % len(hits))
        return None

    def entry(self, path, assume=None, abstract=None, args=None, gmap=None, symbolic_fns=False):
        """analyse an entry point; -> (evaluator, outcomes) or (None, None) with a violation recorded"""
        if path is None:
            return None, None
        key = (path, repr(assume), repr(sorted((abstract or {}).items())), repr(args), repr(gmap), symbolic_fns)
        if key in self.cache:
            return self.cache[key]
        if path not in self.fx.fns:
            self.R.violation('anchor', path, 'anchor-missing', note='function body not in facts')
            self.cache[key] = (None, None)
            return None, None
        ev = sumeval.Ev(self.fx, axioms, max_depth=self.max_depth)
        ev.abstract = dict(abstract or {})
        ev.symbolic_fns = symbolic_fns
        try:
            outs = ev.run_entry(path, args=args, assume=assume, gmap=gmap)
        except sumeval.Unprovable as e:
            self.R.violation('analysis', path, 'unprovable', entry=path, note=str(e))
            self.cache[key] = (None, None)
            return None, None
        except RecursionError:
            self.R.violation('analysis', path, 'unprovable', entry=path, note='recursion limit (recursive call graph?)')
            self.cache[key] = (None, None)
            return None, None
        self.R.functions.add(path)
        for (caller, callee, span, kind) in ev.call_sites:
            if kind == 'axiom':
                note = axioms.TOTAL_NOTE.get(callee)
                self.R.axioms_used.add('axiom %s%s' % (callee, ': ' + note if note else ''))
        self.cache[key] = (ev, outs)
        return ev, outs


def main(argv):
    if not argv:
        print(__doc__)
        return 2
    pid = argv[0]
    tier = os.environ.get('VERIF_TIER', 'quick')
    explain = None
    i = 1
    while i < len(argv):
        if argv[i] == '--tier':
            tier = argv[i + 1]; i += 2
        elif argv[i] == '--explain':
            explain = argv[i + 1]; i += 2
        else:
            i += 1
    if explain:
        print(json.dumps(json.load(open(explain)), indent=1))
        return 0
    try:
        mod = importlib.import_module('rules.' + pid)
    except ImportError as e:
        print('no rules for %s: %s' % (pid, e))
        return 2
    R = framework.Run(pid, tier, getattr(mod, 'LEVEL', 'other'))
    try:
        both = tier == 'thorough'
        if not both:
            hits = F.profile_sensitive()
            if hits:
                # quick tier escalation: the source mentions a cfg that differs between profiles, so the release MIR is analysed too
                both = True
                R.extra['profile_sensitive'] = ['%s: %s' % h for h in hits[:20]]
        raw, secs = F.build_facts(cfg='dev')
        fx = F.Facts(raw)
        fx_rel = None
        if both and getattr(mod, 'NEEDS_REL', False):
            raw2, _ = F.build_facts(cfg='rel')
            fx_rel = F.Facts(raw2)
        R.bodies_in_facts = len(raw['fns'])
        R.extra['facts_build_s'] = round(secs, 2)
        if raw.get('crate') != 'ppp' or len(raw['fns']) < 100:
            R.violation('facts', 'bodies', 'anchor-missing', note='facts list %d bodies for crate %r (expected >= 100 for ppp)' % (len(raw['fns']), raw.get('crate')))
        ctx = Ctx(fx, R, tier, fx_rel)
        mod.run(ctx, R)
        # what the value-flow analysis did with loops and calls on the way (per analysed entry point)
        loops = {'unrolled': set(), 'accelerated': set(), 'widened': set()}
        n_paths = n_calls = 0
        for key, (ev, outs) in ctx.cache.items():
            if ev is None:
                continue
            n_paths += len(outs or [])
            n_calls += len(ev.call_sites)
            for l in ev.unrolled:
                loops['unrolled'].add('%s bb%s' % (l['fn'], l['header']))
            for l in ev.accelerated:
                loops['accelerated'].add('%s bb%s (%s)' % (l['fn'], l['header'], l['idiom']))
            for l in ev.loops:
                loops['widened'].add('%s %s' % (l['fn'], l['header']))
        R.extra['entry_point_analyses'] = len(ctx.cache)
        R.extra['guarded_outcomes'] = n_paths
        R.extra['call_sites_resolved'] = n_calls
        R.extra['loops'] = {k: sorted(v) for k, v in loops.items()}
        if both and not getattr(mod, 'NEEDS_REL', False):
            # thorough tier: the same rules on the release configuration's MIR (overflow checks and debug assertions off)
            raw2, secs2 = F.build_facts(cfg='rel')
            fx2 = F.Facts(raw2)
            R.extra['release_facts_build_s'] = round(secs2, 2)
            before = len(R.instances)
            if raw2.get('overflow_checks') is not False:
                R.violation('facts', 'release-config', 'anchor-missing', note='release facts were built with overflow checks on')
            ctx2 = Ctx(fx2, R, tier, None)
            saved = R.floors
            R.floors = {}
            mod.run(ctx2, R)
            R.extra['release_floors'] = R.floors
            R.floors = saved
            R.extra['release_instances'] = len(R.instances) - before
        import fixtures
        fixtures.require(ctx, R, getattr(mod, 'FIXTURES', ['F3']))
    except F.FactsError as e:
        R.violation('facts', 'build', 'anchor-missing', note=str(e)[-1500:])
    except Exception as e:
        R.violation('analysis', 'internal', 'unprovable', note='checker error: %s\n%s' % (e, traceback.format_exc()[-1500:]))
    return R.finish()
