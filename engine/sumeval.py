"""E2: path-partitioned value-flow analysis over MIR (DESIGN.md 3.2, App. A/C.1).

Abstract interpretation of one entry point with full trace partitioning: every acyclic CFG path
is one partition carrying (path condition, abstract store of terms); loops are widened at their
header (locations that differ after one iteration become mu-terms) and iterated to a fixpoint.
Calls into the crate are inlined (bounded depth); calls into std are interpreted by the axiom
table (axioms.py) or become opaque.  Nothing is executed: all values are terms (terms.py) and
branch feasibility is decided by solver.py.
"""
import ast
import re
import sys
import terms as T
import tys
import solver

sys.setrecursionlimit(20000)

STD_ENUM_VARIANTS = {
    'std::option::Option': ['None', 'Some'],
    'std::result::Result': ['Ok', 'Err'],
    'std::ops::ControlFlow': ['Continue', 'Break'],
    'std::borrow::Cow': ['Borrowed', 'Owned'],
    'std::net::SocketAddr': ['V4', 'V6'],
    'std::net::IpAddr': ['V4', 'V6'],
    'std::cmp::Ordering': ['Less', 'Equal', 'Greater'],
}
STD_ENUM_DISCR = {'std::cmp::Ordering': [-1, 0, 1]}


class Unprovable(Exception):
    pass


class St:
    __slots__ = ('store', 'pc', 'obls', 'notes', 'iters')

    def __init__(self, store=None, pc=None, obls=None, notes=None, iters=None):
        self.store = store if store is not None else {}
        self.pc = pc if pc is not None else []
        self.obls = obls if obls is not None else []
        self.notes = notes if notes is not None else []
        self.iters = iters if iters is not None else {}

    def copy(self):
        return St(dict(self.store), list(self.pc), list(self.obls), list(self.notes), dict(self.iters))


class UnrollFail(Exception):
    pass


class Frame:
    __slots__ = ('fn', 'fid', 'gmap', 'depth')

    def __init__(self, fn, fid, gmap, depth):
        self.fn, self.fid, self.gmap, self.depth = fn, fid, gmap, depth


class LoopInfo:
    def __init__(self, fn):
        blocks = fn['blocks']
        n = len(blocks)
        succ = [[] for _ in range(n)]
        for i, b in enumerate(blocks):
            if b['cleanup']:
                continue
            t = b['term']
            k = t['k']
            if k in ('goto', 'drop', 'assert'):
                succ[i] = [t['t']]
            elif k == 'switch':
                succ[i] = list(dict.fromkeys(t['targets'] + [t['otherwise']]))
            elif k == 'call':
                succ[i] = [t['t']] if t['t'] is not None else []
        self.succ = succ
        color = [0] * n
        self.back_edges = set()
        stack = [(0, iter(succ[0]))]
        color[0] = 1
        while stack:
            v, it = stack[-1]
            try:
                w = next(it)
                if color[w] == 0:
                    color[w] = 1
                    stack.append((w, iter(succ[w])))
                elif color[w] == 1:
                    self.back_edges.add((v, w))
            except StopIteration:
                color[v] = 2
                stack.pop()
        self.headers = {h for _, h in self.back_edges}
        pred = [[] for _ in range(n)]
        for i in range(n):
            for j in succ[i]:
                pred[j].append(i)
        self.body = {}
        for (s, h) in self.back_edges:
            body = self.body.setdefault(h, {h})
            work = [s]
            while work:
                x = work.pop()
                if x not in body:
                    body.add(x)
                    work.extend(pred[x])


class Ev:
    def __init__(self, facts, axioms, max_depth=8):
        self.facts = facts
        self.axioms = axioms
        self.max_depth = max_depth
        self.next_fid = 0
        self._loopinfo = {}
        self.loopbacks = {}
        self.loops = []          # records of analysed loops
        self.extra_obls = []     # obligations on loop-back paths
        self.unknown_callees = {}  # callee path -> count (calls with no axiom)
        self.call_sites = []     # (caller path, callee path, span, kind)
        self.paths = 0
        self.all_obls = []       # every obligation met on any explored path (including paths that end in the panic)
        self.entry_generics = set()
        self.unrolling = set()
        self.unroll_bounds = {}
        self.unrolled = []
        self.loc_types = {}        # per analysis: frame ids restart for every entry point
        self.accelerated = []
        self.unroll_work = 0
        self.frames = {}
        self.abstract = {}       # local fn path -> name: treat calls as uninterpreted pure functions

    # -------------------------------------------------------------------------------- entry
    def run_entry(self, path, args=None, assume=None, gmap=None):
        """Analyse fn `path` with symbolic parameters.  Returns list of outcomes
        dict(pc, ret, store, obls, params)."""
        fn = self.facts.fns[path]
        self.axioms.CURRENT_EV = self
        self.entry_generics = set(g for g in fn['generics'] if not g.startswith("'"))
        st = St()
        params = []
        names = [l['name'] for l in fn['locals']]
        fid = self.next_fid
        argvals = []
        for i in range(fn['arg_count']):
            ty = tys.parse(fn['locals'][i + 1]['ty'])
            name = names[i + 1] or 'arg%d' % i
            if args is not None and args[i] is not None:
                v = args[i]
            else:
                v = ('param', i, name)
                T.TYPES[v] = tys.show(tys.strip_refs(ty)) if ty[0] == 'ref' else tys.show(ty)
                if ty[0] == 'ref' and ty[1]:
                    loc = ('H', i, name)
                    st.store[loc] = v
                    self.loc_types[loc] = ty[2]
                    v2 = ('ref', loc, ())
                    params.append((v, loc))
                    argvals.append(v2)
                    continue
            params.append((v, None))
            argvals.append(v)
        if assume:
            st.pc.extend(assume)
        outs = self.eval_fn(path, argvals, st, gmap or {}, 0, explicit_gmap=True)
        res = []
        for s, ret in outs:
            res.append({'pc': s.pc, 'ret': ret, 'store': s.store, 'obls': s.obls, 'notes': s.notes,
                        'params': params})
        return res

    # -------------------------------------------------------------------------------- functions
    def loopinfo(self, fn):
        p = fn['path']
        if p not in self._loopinfo:
            self._loopinfo[p] = LoopInfo(fn)
        return self._loopinfo[p]

    def eval_fn(self, path, args, st, gmap, depth, explicit_gmap=False):
        fn = self.facts.fns[path]
        if depth > self.max_depth:
            raise Unprovable("inlining depth exceeded at %s" % path)
        fid = self.next_fid
        self.next_fid += 1
        fr = Frame(fn, fid, gmap, depth)
        self.frames[fid] = fr
        ab = self.abstract.get(path)
        if ab is not None:
            vals = tuple(self.deref(a, st) if a[0] == 'ref' else a for a in args)
            return [(st, ('call', 'abs:' + ab, vals))]
        st = st.copy()
        for i, a in enumerate(args):
            st.store[(fid, i + 1)] = a
        outs = self.run(fr, 0, st, None)
        # drop the callee's locals from the store
        res = []
        for s, ret in outs:
            for k in [k for k in s.store if k[0] == fid]:
                del s.store[k]
            res.append((s, ret))
        return res

    # -------------------------------------------------------------------------------- CFG walk
    def run(self, fr, b, st, pred):
        li = self.loopinfo(fr.fn)
        if pred is not None and (pred, b) in li.back_edges:
            key = (fr.fid, b)
            if key in self.unrolling:
                # bounded unrolling attempt: keep going while the iteration count stays small
                n = st.iters.get(key, 0) + 1
                self.unroll_work += 1
                if n > max(self.UNROLL_MAX, self.unroll_bounds.get(key, 0) + 1) or self.unroll_work > 3000:
                    raise UnrollFail()
                st.iters[key] = n
                # loop-carried values that feed on themselves (a cursor advanced by a length read at the cursor) grow geometrically
                if n >= 3 and (any(T.tree_size(v, 2000) >= 2000 for loc, v in st.store.items() if loc[0] == fr.fid) or any(T.tree_size(a, 2000) >= 2000 for a in st.pc[-4:])):
                    raise UnrollFail()
                return self.exec_block(fr, b, st)
            self.loopbacks.setdefault((fr.fid, b), []).append(st)
            return []
        if b in li.headers and (pred is None or pred not in li.body[b]):
            return self.enter_loop(fr, b, st, li)
        return self.exec_block(fr, b, st)

    UNROLL_MAX = 12
    UNROLL_BLOCKS = 8000
    unroll_blocks = 0

    def unroll_hint(self, n):
        """an iterator over a sequence of constant length n was stepped: loops over it end after n iterations"""
        if n <= 256:
            for key in self.unrolling:
                self.unroll_bounds[key] = max(self.unroll_bounds.get(key, 0), n)

    def enter_loop(self, fr, h, st, li):
        key = (fr.fid, h)
        # first try to unroll: loops over a bounded iterator (e.g. splitn(7)) end by themselves on every path
        if key not in self.unrolling:
            self.unrolling.add(key)
            self.unroll_work = 0
            if len(self.unrolling) == 1:
                self.unroll_blocks = 0
            self.unroll_bounds[key] = 0
            n_obls, n_extra, n_loops = len(self.all_obls), len(self.extra_obls), len(self.loops)
            try:
                outs = self.exec_block(fr, h, st.copy())
                self.unrolling.discard(key)
                self.unrolled.append({'fn': fr.fn['path'], 'header': h})
                return outs
            except UnrollFail:
                self.unrolling.discard(key)
                del self.all_obls[n_obls:]
                del self.extra_obls[n_extra:]
                del self.loops[n_loops:]
        W = st
        for it in range(5):
            saved = self.loopbacks.get(key)
            self.loopbacks[key] = []
            n_extra = len(self.extra_obls)
            outs = self.exec_block(fr, h, W.copy())
            backs = self.loopbacks.pop(key)
            if saved is not None:
                self.loopbacks[key] = saved
            W2 = self.widen(fr, h, W, backs)
            if W2 is None:
                # fixpoint reached with header state W
                acc = self.accelerate_search(fr, st, W, backs, outs)
                if acc is not None:
                    self.accelerated.append({'fn': fr.fn['path'], 'header': h, 'idiom': 'first-occurrence search'})
                    return acc
                for bstate in backs:
                    self.extra_obls.extend(bstate.obls[len(W.obls):])
                self.loops.append({'fn': fr.fn['path'], 'header': h, 'fid': fr.fid, 'entry': st, 'widened': W,
                                   'backs': backs, 'exits': outs, 'body': sorted(li.body[h])})
                return outs
            del self.extra_obls[n_extra:]
            W = W2
        raise Unprovable("loop at %s bb%d did not stabilise" % (fr.fn['path'], h))

    def accelerate_search(self, fr, entry, W, backs, outs):
        """Loop acceleration for the first-occurrence search idiom: a loop over a slice iterator (optionally enumerated) whose every
        iteration either finds `item == c` for one constant c and leaves the loop, or advances the iterator and changes nothing else.
        Its exits are then closed forms over has_byte / first_byte of the sequence at loop entry (the vocabulary of slice::position and
        str::find): -> the outcomes with the loop-carried terms replaced, or None when the loop is not of that shape."""
        mus = {}

        def pair(e, w):
            if w[0] == 'mu':
                mus[w] = e
            elif w[0] == 'adt' and e[0] == 'adt' and len(w[4]) == len(e[4]):
                for x, y in zip(e[4], w[4]):
                    pair(x, y)
            elif w[0] == 'tuple' and e[0] == 'tuple' and len(w[1]) == len(e[1]):
                for x, y in zip(e[1], w[1]):
                    pair(x, y)
        iter_locs = []
        for loc, w in W.store.items():
            e = entry.store.get(loc)
            if e is None or e == w:
                continue
            pair(e, w)
            iter_locs.append(loc)
        if len(iter_locs) != 1 or not mus:
            return None
        itw = W.store[iter_locs[0]]
        mu_s = mu_i = None
        for t in T.subterms(itw):
            if t[0] == 'adt' and t[1] == '$SliceIter' and T.adt_field(t, 'seq')[0] == 'mu':
                mu_s = T.adt_field(t, 'seq')
            if t[0] == 'adt' and t[1] == '$Enumerate' and T.adt_field(t, 'idx')[0] == 'mu':
                mu_i = T.adt_field(t, 'idx')
        if mu_s is None or set(mus) - {mu_s, mu_i}:
            return None
        seq0 = mus[mu_s]
        idx0 = mus.get(mu_i)
        n0 = T.mk_len(seq0)
        has = T.ge0(T.sub(T.mk_len(mu_s), T.I(1)))
        item = T.mk_at(mu_s, T.I(0))
        consts = set()
        base = len(W.pc)

        def p_const(atom):
            if atom[0] != 'eq0':
                return None
            c0, m = T.to_lin(atom[1])
            if set(m) == {item} and m[item] in (1, -1) and (-c0) % m[item] == 0:
                return (-c0) // m[item]
            return None
        if not backs:
            return None
        for b in backs:
            new = [a for a in b.pc[base:] if a != has]
            if has not in b.pc[base:] or len(new) != 1 or new[0][0] != 'not' or p_const(new[0][1]) is None:
                return None
            consts.add(p_const(new[0][1]))
            for loc, w in W.store.items():
                bv = b.store.get(loc)
                if bv is None or loc[0] != fr.fid:
                    continue
                if loc == iter_locs[0]:
                    want = T.rebuild(w, {mu_s: T.mk_slice(mu_s, T.I(1), T.mk_len(mu_s)), **({mu_i: T.add(mu_i, T.I(1))} if mu_i is not None else {})})
                    if bv != want:
                        return None
                elif bv != w and fr.fn['locals'][loc[1]]['name']:
                    return None        # a named local other than the iterator changes from one iteration to the next
        if len(consts) != 1:
            return None
        c = T.I(next(iter(consts)))
        p = T.eq0(T.sub(item, c))
        hb = ('call', 'has_byte', (seq0, c))
        F = ('call', 'first_byte', (seq0, c))
        res = []
        for s_out, ret in outs:
            new = s_out.pc[base:]
            if T.bnot(has) in new:
                sub_ = {mu_s: T.mk_slice(seq0, n0, n0)}
                if mu_i is not None:
                    sub_[mu_i] = T.add(idx0, n0)
                fact = T.bnot(hb)
            elif has in new and p in new:
                sub_ = {mu_s: T.mk_slice(seq0, F, n0)}
                if mu_i is not None:
                    sub_[mu_i] = T.add(idx0, F)
                fact = hb
            else:
                return None
            s2 = s_out.copy()
            pc = list(s2.pc[:base]) + [fact]
            dead = False
            for a in s2.pc[base:]:
                a2 = T.rebuild(a, sub_) if any(T.mentions(a, mu) for mu in sub_) else a
                if a2 == T.FALSE:
                    dead = True
                    break
                if a2 != T.TRUE and a2 not in pc:
                    pc.append(a2)
            if dead or not solver.sat(pc):
                continue
            s2.pc = pc
            for loc, v in list(s2.store.items()):
                if any(T.mentions(v, mu) for mu in sub_):
                    s2.store[loc] = T.rebuild(v, sub_)
            ret2 = T.rebuild(ret, sub_) if any(T.mentions(ret, mu) for mu in sub_) else ret
            for ob in s2.obls[len(W.obls):]:
                ob['cond'] = T.rebuild(ob['cond'], sub_)
                ob['pc'] = list(pc)
            res.append((s2, ret2))
        return res

    def widen(self, fr, h, W, backs):
        """-> new header state, or None if W already covers all back-edge states"""
        changed = False
        new = W.copy()
        for loc, v in W.store.items():
            vals = [b.store.get(loc, v) for b in backs]
            if all(x == v for x in vals):
                continue
            name = '%s#bb%d#%s' % (fr.fn['path'], h, self.locname(fr, loc))
            w = self.widen_term(v, vals, name)
            if w != v:
                new.store[loc] = w
                changed = True
        return new if changed else None

    def locname(self, fr, loc):
        if loc[0] == 'H':
            return 'arg:%s' % loc[2]
        if loc[0] == fr.fid:
            n = fr.fn['locals'][loc[1]]['name']
            return n or '_%d' % loc[1]
        return 'outer:%s' % (loc[1],)

    def widen_term(self, v, vals, name):
        if v[0] == 'mu':
            return v
        if v[0] == 'adt' and all(x[0] == 'adt' and x[1] == v[1] and x[2] == v[2] for x in vals):
            names = T.adt_names(v)
            fields = []
            for i, n in enumerate(names):
                fields.append((n, self.widen_term(v[4][i], [x[4][i] for x in vals], name + '.' + n)))
            return T.mk_adt(v[1], v[2], fields)
        if v[0] == 'tuple' and all(x[0] == 'tuple' and len(x[1]) == len(v[1]) for x in vals):
            return ('tuple', tuple(self.widen_term(v[1][i], [x[1][i] for x in vals], '%s.%d' % (name, i)) for i in range(len(v[1]))))
        if all(x == v for x in vals):
            return v
        m = ('mu', name)
        if v in T.TYPES:
            T.TYPES[m] = T.TYPES[v]
        return m

    def exec_block(self, fr, b, st):
        blk = fr.fn['blocks'][b]
        fid = fr.fid
        if self.unrolling:
            # an unrolling attempt is abandoned (and the loop widened instead) once it has cost this many blocks: loops whose
            # iterations fork (an inlined callee with several outcomes per iteration) multiply paths instead of ending
            self.unroll_blocks += 1
            if self.unroll_blocks > self.UNROLL_BLOCKS:
                raise UnrollFail()
        for s in blk['stmts']:
            k = s['k']
            if k == 'assign':
                v = self.rvalue(fr, s['rv'], st, s)
                self.write_place(fr, s['place'], v, st)
            elif k == 'dead':
                st.store.pop((fid, s['l']), None)
            elif k == 'setdiscr':
                st.notes.append(('unsupported', 'setdiscr', s.get('span')))
                self.write_place(fr, s['place'], ('opaque', 'setdiscr'), st)
            else:
                st.notes.append(('unsupported-stmt', s.get('dbg'), s.get('span')))
        t = blk['term']
        k = t['k']
        if k == 'goto':
            return self.run(fr, t['t'], st, b)
        if k == 'return':
            self.paths += 1
            return [(st, st.store.get((fid, 0), ('opaque', 'no return value')))]
        if k == 'drop':
            return self.run(fr, t['t'], st, b)
        if k == 'unreachable':
            return []
        if k == 'switch':
            return self.do_switch(fr, b, t, st)
        if k == 'assert':
            c = self.operand(fr, t['cond'], st)
            split = self.case_split_discr(st, c) if c[0] not in ('int',) else None
            if split is not None:
                outs = []
                for s2 in split:
                    outs.extend(self.exec_term_only(fr, b, s2))
                return outs
            ok = c if t['expected'] else T.bnot(c)
            ob = {'kind': t['msg']['k'], 'site': t['span'], 'fn': fr.fn['path'], 'cond': ok,
                  'pc': list(st.pc), 'detail': t['msg'].get('op') or t['msg'].get('dbg') or '', 'exp': t.get('exp', False)}
            st.obls.append(ob)
            self.all_obls.append(ob)
            if ok == T.FALSE:
                return []
            if ok != T.TRUE and ok not in st.pc:
                st.pc.append(ok)
            return self.run(fr, t['t'], st, b)
        if k == 'call':
            return self.do_call(fr, b, t, st)
        st.notes.append(('unsupported-term', k, t.get('span')))
        return []

    def exec_term_only(self, fr, b, st):
        """re-run the terminator of block b in state st (used after a case split)"""
        t = fr.fn['blocks'][b]['term']
        c = self.operand(fr, t['cond'], st)
        ok = c if t['expected'] else T.bnot(c)
        ob = {'kind': t['msg']['k'], 'site': t['span'], 'fn': fr.fn['path'], 'cond': ok,
              'pc': list(st.pc), 'detail': t['msg'].get('op') or t['msg'].get('dbg') or '', 'exp': t.get('exp', False)}
        st.obls.append(ob)
        self.all_obls.append(ob)
        if ok == T.FALSE:
            return []
        if ok != T.TRUE and ok not in st.pc:
            st.pc.append(ok)
        return self.run(fr, t['t'], st, b)

    def case_split_discr(self, st, v):
        """v mentions the discriminant of exactly one symbolic enum value with a known, small variant set: -> one state per feasible variant,
        with that discriminant replaced by its integer everywhere in the state (None if v does not have that shape)"""
        if v[0] == 'discr':
            return None
        ds = {x for x in T.subterms(v) if x[0] == 'discr' and not any(y[0] == 'discr' for y in T.subterms(x[1]))}
        if len(ds) != 1:
            return None
        d = next(iter(ds))
        names = self.discr_names(d)
        if names is None or len(names) > 32:
            return None
        outs = []
        for dv, name in sorted(names.items()):
            s2 = st.copy()
            atom = ('isvar', d[1], name)
            if atom not in s2.pc:
                s2.pc.append(atom)
                if not solver.sat(s2.pc):
                    continue
            sub_ = {d: T.I(dv)}
            for loc, val in list(s2.store.items()):
                if T.mentions(val, d):
                    s2.store[loc] = T.rebuild(val, sub_)
            s2.pc = [T.rebuild(a, sub_) if T.mentions(a, d) else a for a in s2.pc]
            s2.pc = [a for a in s2.pc if a != T.TRUE]
            if T.FALSE in s2.pc:
                continue
            outs.append(s2)
        return outs

    def do_switch(self, fr, b, t, st):
        v = self.operand(fr, t['op'], st)
        vals, targets, other = t['vals'], t['targets'], t['otherwise']
        if v[0] == 'int':
            for x, tg in zip(vals, targets):
                if x == v[1]:
                    return self.run(fr, tg, st, b)
            return self.run(fr, other, st, b)
        outs = []
        is_bool = t['op_ty'] == 'bool'
        edges = []
        if v[0] != 'discr':
            # arithmetic over the discriminant of one symbolic enum value (`(x as u8) >> 4`, a table indexed by it): decided per variant
            split = self.case_split_discr(st, v)
            if split is not None:
                for s2 in split:
                    outs.extend(self.do_switch(fr, b, t, s2))
                return outs
        if v[0] == 'discr':
            names = self.discr_names(v)
            if names is None:
                raise Unprovable("switch on discriminant of unknown enum: %s" % T.short(v))
            for x, tg in zip(vals, targets):
                if x in names:
                    edges.append((('isvar', v[1], names[x]), tg))
            rest = [n for d, n in names.items() if d not in vals]
            if rest:
                if len(rest) == 1:
                    edges.append((('isvar', v[1], rest[0]), other))
                else:
                    conj = T.TRUE
                    for x in vals:
                        if x in names:
                            conj = T.band_bool(conj, ('not', ('isvar', v[1], names[x])))
                    edges.append((conj, other))
        elif is_bool:
            for x, tg in zip(vals, targets):
                edges.append((T.bnot(v) if x == 0 else v, tg))
            edges.append((v if vals == [0] else T.bnot(v), other))
        else:
            conj = T.TRUE
            for x, tg in zip(vals, targets):
                edges.append((T.eq0(T.sub(v, T.I(x))), tg))
                conj = T.band_bool(conj, T.bnot(T.eq0(T.sub(v, T.I(x)))))
            edges.append((conj, other))
        for atom, tg in edges:
            if atom == T.FALSE:
                continue
            s2 = st.copy()
            if atom != T.TRUE and atom not in s2.pc:
                s2.pc.append(atom)
                if not solver.sat(s2.pc):
                    continue
            outs.extend(self.run(fr, tg, s2, b))
        return outs

    def note_discr(self, d, adt):
        T.TYPES[d] = adt
        T.NUMERIC[d] = True
        a = self.facts.adts.get(adt)
        if a is not None:
            ds = [x['discr'] for x in a['variants'] if x['discr'] is not None]
            if ds:
                T.BOUNDS[d] = (min(ds), max(ds))
        elif adt in STD_ENUM_VARIANTS:
            T.BOUNDS[d] = (0, len(STD_ENUM_VARIANTS[adt]) - 1)

    def discr_names(self, v):
        """discriminant value -> variant name for the enum whose discriminant term v is"""
        adt = T.TYPES.get(v)
        if adt is None:
            return None
        a = self.facts.adts.get(adt)
        if a is not None:
            return {x['discr']: x['name'] for x in a['variants']}
        if adt in STD_ENUM_VARIANTS:
            ds = STD_ENUM_DISCR.get(adt, range(len(STD_ENUM_VARIANTS[adt])))
            return dict(zip(ds, STD_ENUM_VARIANTS[adt]))
        return None

    # -------------------------------------------------------------------------------- values
    def const(self, c, fr=None):
        if 'int' in c:
            return T.I(c['int'])
        if 'agg' in c:
            return self.const_agg(c['agg'], c.get('ty'), fr)
        if 'unevaluated' in c:
            # a const generic parameter: its value comes from the instantiation being analysed
            m = re.match(r'Ty\(\w+, (\w+)/#\d+\)$', c['unevaluated'])
            g = fr.gmap.get(m.group(1)) if (m and fr is not None) else None
            if g is not None and g[0] == 'path' and g[1].isdigit():
                return T.I(int(g[1]))
            return ('opaque', 'const generic %s' % c['unevaluated'])
        for k in ('slice_bytes', 'ref_bytes', 'raw_bytes'):
            if k in c:
                # a constant of a crate-local field-less enum (e.g. a promoted `&AddressFamily::IPv4`): the variant with that discriminant
                ty = tys.strip_refs(tys.parse(c.get('ty', '?')))
                a = self.facts.adts.get(ty[1]) if ty[0] == 'path' else None
                if a is not None and a.get('kind') == 'Enum' and all(not v.get('fields') for v in a['variants']):
                    val = int.from_bytes(bytes.fromhex(c[k]), 'little')
                    for v in a['variants']:
                        if (v['discr'] if v['discr'] is not None else v.get('idx')) == val:
                            return T.mk_adt(ty[1], v['name'], [])
                    return ('opaque', 'constant of enum %s with unknown discriminant %d' % (ty[1], val))
        for k in ('slice_bytes', 'ref_bytes'):
            if k in c:
                return ('bytes', bytes.fromhex(c[k]))
        if 'raw_bytes' in c:
            ty = tys.parse(c['ty'])
            if ty[0] == 'array' and ty[1] == ('path', 'u8', ()):
                return ('bytes', bytes.fromhex(c['raw_bytes']))
            return ('opaque', 'const of type %s' % c['ty'])
        if 'fn' in c:
            return ('fn', c['fn'], tuple(c.get('fn_args', ())))
        if 'fnptr' in c:
            return ('fn', c['fnptr'], ())
        if c.get('zst'):
            return T.UNIT
        return ('opaque', 'const %s' % c.get('ty'))

    def const_agg(self, a, ty, fr):
        """structured aggregate constant (array / tuple / struct / enum value) from the fact extractor"""
        fields = [self.const(f, fr) for f in a['fields']]
        if a['kind'] == 'array':
            t = tys.strip_refs(tys.parse(ty or '?'))
            if all(f[0] == 'int' and 0 <= f[1] < 256 for f in fields) and t[0] == 'array' and t[1] == ('path', 'u8', ()):
                return ('bytes', bytes(f[1] for f in fields))
            return ('arr', tuple(fields))
        if a['kind'] == 'tuple':
            return ('tuple', tuple(fields))
        names = a.get('names') or [str(i) for i in range(len(fields))]
        return T.mk_adt(a['adt'], a['variant'], zip(names, fields))

    def operand(self, fr, o, st):
        if 'copy' in o:
            return self.read_place(fr, o['copy'], st)
        if 'move' in o:
            return self.read_place(fr, o['move'], st)
        if 'const' in o:
            return self.const(o['const'], fr)
        return ('opaque', 'operand')

    def adt_of_type(self, ty):
        """type tree -> (adt path, args) for nominal types"""
        ty = tys.strip_refs(ty)
        if ty[0] == 'path':
            return ty[1], ty[2]
        return None, ()

    def get_field(self, v, name, variant=None):
        if v[0] == 'adt':
            if variant is not None and v[2] != variant:
                return ('opaque', 'field of wrong variant %s (is %s)' % (variant, v[2]))
            try:
                return T.adt_field(v, name)
            except KeyError:
                return ('opaque', 'no field %s in %s' % (name, v[1]))
        if v[0] == 'tuple':
            try:
                return v[1][int(name)]
            except (ValueError, IndexError):
                return ('opaque', 'tuple field %s' % name)
        if v[0] == 'opaque':
            return v
        if v[0] == 'closure':
            try:
                return v[2][int(name)]
            except (ValueError, IndexError):
                return ('opaque', 'closure field')
        if variant is not None:
            return ('vfield', v, variant, name)
        return ('field', v, name)

    def deref(self, v, st):
        if v[0] == 'ref':
            base = st.store.get(v[1], ('opaque', 'dangling ref'))
            return self.get_path(base, v[2])
        return v

    def get_path(self, v, path):
        for step in path:
            if step[0] == 'f':
                v = self.get_field(v, step[1], step[2])
            elif step[0] == 'i':
                v = T.mk_at(v, step[1])
            elif step[0] == 'r':
                v = T.mk_slice(v, step[1], step[2])
        return v

    def read_place(self, fr, p, st):
        loc = (fr.fid, p['l'])
        if loc not in st.store:
            v = ('opaque', 'uninitialised _%d in %s' % (p['l'], fr.fn['path']))
        else:
            v = st.store[loc]
        variant = None
        for e in p['p']:
            k = e['k']
            if k == 'deref':
                v = self.deref(v, st)
            elif k == 'field':
                v = self.get_field(v, e['name'], variant)
                variant = None
            elif k == 'downcast':
                variant = e['v']
            elif k == 'index':
                idx = st.store.get((fr.fid, e['l']), ('opaque', 'index'))
                v = T.mk_at(v, idx)
            elif k == 'cindex':
                v = T.mk_at(v, T.I(e['off'])) if not e['end'] else T.mk_at(v, T.sub(T.mk_len(v), T.I(e['off'])))
            elif k == 'subslice':
                hi = T.sub(T.mk_len(v), T.I(e['to'])) if e['end'] else T.I(e['to'])
                v = T.mk_slice(v, T.I(e['from']), hi)
            else:
                v = ('opaque', 'projection %s' % e.get('dbg'))
        self.note_type(v, p['ty'])
        return v

    def note_type(self, v, tystr):
        if v[0] in ('param', 'field', 'vfield', 'call', 'mu', 'discr') and v not in T.TYPES:
            t = tys.parse(tystr)
            t = tys.strip_refs(t)
            T.TYPES[v] = tys.show(t) if t[0] != 'path' else t[1]
            if t[0] == 'path' and t[1] in solver.INT_RANGES:
                T.NUMERIC[v] = True
            if t[0] == 'array' and t[2].isdigit():
                T.KNOWN_LEN[v] = int(t[2])

    def lvalue(self, fr, p, st):
        """-> (loc, path) of the storage a place denotes"""
        loc = (fr.fid, p['l'])
        path = ()
        variant = None
        for e in p['p']:
            k = e['k']
            if k == 'deref':
                cur = self.get_path(st.store.get(loc, ('opaque', 'uninit')), path)
                if cur[0] == 'ref':
                    loc, path = cur[1], cur[2]
                else:
                    return None, None
            elif k == 'field':
                path = path + (('f', e['name'], variant),)
                variant = None
            elif k == 'downcast':
                variant = e['v']
            elif k == 'index':
                path = path + (('i', st.store.get((fr.fid, e['l']), ('opaque', 'index'))),)
            elif k == 'cindex' and not e['end']:
                path = path + (('i', T.I(e['off'])),)
            else:
                return None, None
        return loc, path

    def expand(self, v, ty):
        """make a symbolic struct value explicit so that one field can be replaced"""
        adt, args = self.adt_of_type(ty)
        a = self.facts.adts.get(adt) if adt else None
        if a is None or a['kind'] != 'Struct':
            return None
        var = a['variants'][0]
        return T.mk_adt(adt, var['name'], [(f['name'], self.get_field(v, f['name'])) for f in var['fields']])

    def field_type(self, ty, name):
        adt, args = self.adt_of_type(ty)
        a = self.facts.adts.get(adt) if adt else None
        if a is None:
            return None
        for var in a['variants']:
            for f in var['fields']:
                if f['name'] == name:
                    return tys.parse(f['ty'])
        return None

    def set_path(self, v, path, new, ty):
        if not path:
            return new
        step = path[0]
        if step[0] == 'f':
            name, variant = step[1], step[2]
            if v[0] == 'tuple':
                i = int(name)
                items = list(v[1])
                items[i] = self.set_path(items[i], path[1:], new, None)
                return ('tuple', tuple(items))
            if v[0] != 'adt':
                e = self.expand(v, ty) if ty is not None else None
                if e is None:
                    return ('opaque', 'store into field %s of untyped value' % name)
                v = e
            sub_ty = self.field_type(ty, name) if ty is not None else None
            return T.adt_with(v, name, self.set_path(T.adt_field(v, name), path[1:], new, sub_ty))
        if step[0] == 'i':
            idx = step[1]
            if len(path) == 1 and v[0] == 'arr' and idx[0] == 'int' and 0 <= idx[1] < len(v[1]):
                items = list(v[1])
                items[idx[1]] = new
                return ('arr', tuple(items))
            if len(path) == 1:
                n = T.mk_len(v)
                return T.mk_concat([T.mk_slice(v, T.I(0), idx), ('arr', (new,)), T.mk_slice(v, T.add(idx, T.I(1)), n)])
            return ('opaque', 'nested indexed store')
        if step[0] == 'r':
            lo, hi = step[1], step[2]
            n = T.mk_len(v)
            if len(path) != 1:
                # a store inside a sub-range (`let (a, b) = v.split_at_mut(k); a[i] = x`): rewrite the sub-range, then splice it back
                new = self.set_path(T.mk_slice(v, lo, hi), path[1:], new, None)
                if new[0] == 'opaque':
                    return new
            return T.mk_concat([T.mk_slice(v, T.I(0), lo), new, T.mk_slice(v, hi, n)])
        return ('opaque', 'store path')

    def loc_type(self, fr, loc):
        if loc in self.loc_types:
            return self.loc_types[loc]
        f2 = self.frames.get(loc[0])
        if f2 is not None:
            return tys.subst(tys.parse(f2.fn['locals'][loc[1]]['ty']), f2.gmap)
        return None

    def write_place(self, fr, p, v, st):
        if not p['p']:
            st.store[(fr.fid, p['l'])] = v
            self.loc_types.setdefault((fr.fid, p['l']), tys.subst(tys.parse(fr.fn['locals'][p['l']]['ty']), fr.gmap))
            return
        loc, path = self.lvalue(fr, p, st)
        if loc is None:
            st.notes.append(('unsupported', 'store through untracked pointer', fr.fn['path']))
            return
        self.store_at(fr, loc, path, v, st)

    def store_at(self, fr, loc, path, v, st):
        old = st.store.get(loc, ('opaque', 'uninit'))
        st.store[loc] = self.set_path(old, path, v, self.loc_type(fr, loc))

    # -------------------------------------------------------------------------------- rvalues
    def fold_bytes(self, v, st):
        """be(byte_{n-1}(x), .., byte_0(x)) is x when x fits in n bytes on this path"""
        r = T.bytes_of_same(v)
        if r is not None:
            x, n = r
            if solver.entails(st.pc, T.band_bool(T.ge0(x), T.ge0(T.sub(T.I(256 ** n - 1), x)))):
                return x
        return v

    def int_range_cond(self, v, ty):
        r = solver.INT_RANGES.get(ty)
        if r is None:
            return ('opaque', 'range of %s' % ty)
        return T.band_bool(T.ge0(T.sub(v, T.I(r[0]))), T.ge0(T.sub(T.I(r[1]), v)))

    def rvalue(self, fr, rv, st, stmt=None):
        k = rv['k']
        if k == 'use':
            return self.operand(fr, rv['op'], st)
        if k == 'ref':
            if rv['bk'] == 'mut':
                loc, path = self.lvalue(fr, rv['place'], st)
                if loc is None:
                    return ('opaque', '&mut of untracked place')
                return ('ref', loc, path)
            return self.read_place(fr, rv['place'], st)
        if k == 'cast':
            return self.cast(fr, rv, st)
        if k == 'binop':
            return self.binop(fr, rv, st, stmt)
        if k == 'unop':
            a = self.operand(fr, rv['a'], st)
            op = rv['op']
            if op == 'Not':
                if rv['ty'] == 'bool':
                    return T.bnot(a)
                r = solver.INT_RANGES.get(rv['ty'])
                if r and r[0] == 0:
                    return T.sub(T.I(r[1]), a)
                return ('call', 'bitnot', (a,))
            if op == 'Neg':
                return T.neg(a)
            if op == 'PtrMetadata':
                return T.mk_len(a)
            return ('opaque', 'unop %s' % op)
        if k == 'discr':
            v = self.read_place(fr, rv['place'], st)
            ty = tys.subst(tys.parse(rv['place']['ty']), fr.gmap)
            adt, _ = self.adt_of_type(ty)
            if v[0] == 'adt':
                a = self.facts.adts.get(v[1])
                if a is not None:
                    for var in a['variants']:
                        if var['name'] == v[2]:
                            return T.I(var['discr'] if var['discr'] is not None else var['idx'])
                if v[1] in STD_ENUM_VARIANTS:
                    i = STD_ENUM_VARIANTS[v[1]].index(v[2])
                    return T.I(STD_ENUM_DISCR.get(v[1], range(8))[i])
                return ('opaque', 'discriminant of %s' % v[1])
            if v[0] == 'opaque':
                return v
            d = ('discr', v)
            self.note_discr(d, adt)
            return d
        if k == 'agg':
            ops = [self.operand(fr, o, st) for o in rv['ops']]
            ak = rv['ak']
            if ak == 'adt':
                return T.mk_adt(rv['adt'], rv['variant'], zip(rv['fields'], ops))
            if ak == 'tuple':
                return ('tuple', tuple(ops))
            if ak == 'array':
                if ops and all(o[0] == 'int' and 0 <= o[1] < 256 for o in ops) and rv.get('elem_ty') == 'u8':
                    return ('bytes', bytes(o[1] for o in ops))
                return ('arr', tuple(ops))
            if ak == 'closure':
                if fr.gmap:
                    # the closure body refers to its creator's generic parameters
                    return ('closure', rv['closure'], tuple(ops), repr(sorted(fr.gmap.items())))
                return ('closure', rv['closure'], tuple(ops))
            return ('opaque', 'aggregate %s' % ak)
        if k == 'repeat':
            v = self.operand(fr, rv['op'], st)
            n = rv['n']
            if n is None and stmt is not None:
                # length is a const generic parameter: read it from the destination's instantiated type
                ty = tys.subst(tys.parse(stmt['place'].get('ty', '?')), fr.gmap)
                if ty[0] == 'array' and str(ty[2]).isdigit():
                    n = int(ty[2])
            if n is None:
                return ('opaque', 'repeat')
            if v[0] == 'int' and 0 <= v[1] < 256 and n <= 4096:
                return ('bytes', bytes([v[1]]) * n)
            if v[0] != 'int' and n <= 64:
                return ('arr', (v,) * n)        # a small array of non-byte elements (e.g. [""; 7]) is kept element-wise
            return ('repeat', v, T.I(n))
        if k == 'rawptr':
            # `&raw const *p` appears in safe code only where a slice pattern reads the length (PtrMetadata); dereferencing it would need
            # an unsafe block (C03.U requires none), so the pointer is as transparent as a shared reference
            return self.read_place(fr, rv['place'], st)
        return ('opaque', 'rvalue %s' % rv.get('dbg', k))

    def cast(self, fr, rv, st):
        v = self.operand(fr, rv['op'], st)
        ck = rv['ck']
        src, dst = rv['from'], rv['ty']
        if ck.startswith('IntToInt'):
            rs, rd = solver.INT_RANGES.get(src), solver.INT_RANGES.get(dst)
            if rs is None or rd is None:
                # enum-to-int cast: discriminant
                if v[0] == 'adt':
                    a = self.facts.adts.get(v[1])
                    if a:
                        for var in a['variants']:
                            if var['name'] == v[2] and var['discr'] is not None:
                                return T.I(var['discr'])
                if rd is not None:
                    adt, _ = self.adt_of_type(tys.parse(src))
                    if adt in self.facts.adts:
                        d = ('discr', v)
                        self.note_discr(d, adt)
                        return d
                return ('opaque', 'cast %s -> %s' % (src, dst))
            if rs[0] >= rd[0] and rs[1] <= rd[1]:
                return v
            if v[0] == 'int':
                width = rd[1] - rd[0] + 1
                x = (v[1] - rd[0]) % width + rd[0]
                return T.I(x)
            if dst == 'u8' and rs[0] == 0 and v[0] == 'shr' and v[2][0] == 'int' and v[2][1] % 8 == 0:
                return T.mk_byte(0, v)      # one canonical form for a byte of x, whether or not the shift already leaves a single byte
            if solver.entails(st.pc, self.int_range_cond(v, dst)):
                return v
            if dst == 'u8' and rs[0] == 0:
                return T.mk_byte(0, v)      # (x >> 8k) as u8 / x as u8: a byte of x, exact by definition
            if rd[0] == 0:
                bits = (rd[1] + 1).bit_length() - 1
                t = ('trunc', bits, v)
                st.notes.append(('lossy-cast', src, dst, T.short(v), fr.fn['path']))
                return t
            return ('call', 'cast:' + dst, (v,))
        if 'Unsize' in ck or ck.startswith('PtrToPtr') or 'ReifyFnPointer' in ck or 'MutToConstPointer' in ck:
            return v
        if ck.startswith('Transmute'):
            return ('opaque', 'transmute')
        return ('opaque', 'cast kind %s' % ck)

    def binop(self, fr, rv, st, stmt):
        a = self.operand(fr, rv['a'], st)
        b = self.operand(fr, rv['b'], st)
        op = rv['op']
        ty = rv['ty']
        base = op.replace('WithOverflow', '').replace('Unchecked', '')
        if base in ('Add', 'Sub', 'Mul'):
            r = {'Add': T.add, 'Sub': T.sub, 'Mul': T.mul}[base](a, b)
            rng = self.int_range_cond(r, ty)
            if op.endswith('WithOverflow'):
                return ('tuple', (r, T.bnot(rng)))
            if ty in solver.INT_RANGES and rng != T.TRUE:
                # unchecked / release arithmetic: value is exact only if it cannot wrap
                ob = {'kind': 'wrap', 'site': (stmt or {}).get('span', '?'), 'fn': fr.fn['path'], 'cond': rng,
                      'pc': list(st.pc), 'detail': base, 'exp': (stmt or {}).get('exp', False)}
                st.obls.append(ob)
                self.all_obls.append(ob)
            return r
        if base in ('Eq', 'Ne', 'Lt', 'Le', 'Gt', 'Ge'):
            if ty == 'bool' and base in ('Eq', 'Ne'):
                e = T.bor_bool(T.band_bool(a, b), T.band_bool(T.bnot(a), T.bnot(b)))
                return e if base == 'Eq' else T.bnot(e)
            if base in ('Eq', 'Ne'):
                # discriminant compared with a constant: the variant test (one form for `x == E::V`, `matches!(x, E::V)` and `match x`)
                for d, c in ((a, b), (b, a)):
                    if d[0] == 'discr' and c[0] == 'int':
                        names = self.discr_names(d)
                        if names is not None:
                            t = ('isvar', d[1], names[c[1]]) if c[1] in names else T.FALSE
                            return t if base == 'Eq' else T.bnot(t)
            if T.is_numeric(a) or T.is_numeric(b) or ty in solver.INT_RANGES or ty == 'char':
                return T.cmp(base, a, b)
            if base == 'Eq':
                return T.eq(a, b)
            if base == 'Ne':
                return T.bnot(T.eq(a, b))
            return ('call', 'cmp:' + base, (a, b))
        if base in ('BitAnd', 'BitOr', 'BitXor'):
            if ty == 'bool':
                if base == 'BitAnd': return T.band_bool(a, b)
                if base == 'BitOr': return T.bor_bool(a, b)
                return T.bnot(T.eq(a, b))
            return self.fold_bytes(T.bitop({'BitAnd': 'band', 'BitOr': 'bor', 'BitXor': 'bxor'}[base], a, b), st)
        if base in ('Shl', 'Shr'):
            return T.shift('shl' if base == 'Shl' else 'shr', a, b)
        if base in ('Div', 'Rem'):
            if b[0] == 'int' and b[1] > 0 and b[1] & (b[1] - 1) == 0 and (ty or '').startswith('u'):
                # unsigned division / remainder by a power of two are a shift / a mask
                k = b[1].bit_length() - 1
                if base == 'Div':
                    return T.shift('shr', a, T.I(k)) if k else a
                return self.fold_bytes(T.bitop('band', a, T.I(b[1] - 1)), st)
            return ('call', base.lower(), (a, b))
        return ('opaque', 'binop %s' % op)

    # -------------------------------------------------------------------------------- calls
    def do_call(self, fr, b, t, st):
        c = t['callee']
        args = [self.operand(fr, a, st) for a in t['args']]
        site = {'span': t['span'], 'fn': fr.fn['path'], 'exp': t.get('exp', False)}
        results = self.call(fr, c, args, st, site)
        outs = []
        for s2, v in results:
            if t['t'] is None:
                continue
            self.write_place(fr, t['dest'], v, s2)
            outs.extend(self.run(fr, t['t'], s2, b))
        return outs

    def subst_ty(self, s, gmap):
        return tys.subst(tys.parse(s), gmap)

    def call(self, fr, c, args, st, site):
        """-> list of (state, return value)"""
        if 'indirect' in c:
            f = self.operand(fr, c['indirect'], st)
            if f[0] in ('fn', 'closure'):
                return self.apply_closure(f, args, st, fr, site)
            return [(st, ('opaque', 'indirect call'))]
        if 'ctor' in c:
            names = c.get('ctor_fields') or [str(i) for i in range(len(args))]
            return [(st, T.mk_adt(c['ctor_adt'], c['ctor_name'], zip(names, args)))]
        gmap = fr.gmap
        targs = [self.subst_ty(a, gmap) for a in c['args']]
        info = {'c': c, 'targs': targs, 'site': site, 'fr': fr}
        if 'rpath' in c:
            rpath = c['rpath']
            rargs = [self.subst_ty(a, gmap) for a in c['rargs']]
            info['rargs'] = rargs
            if c.get('rlocal') and rpath in self.facts.fns and c.get('ikind') == 'item':
                if self.facts.fns[rpath].get('kind') == 'Closure' and c.get('trait', '').startswith('std::ops::Fn') and len(args) == 2 and args[1][0] == 'tuple':
                    # rust-call ABI: Fn*::call*(closure, (a, b, ..)) reaches the closure body with the tuple spread into its parameters
                    args = [args[0]] + list(args[1][1])
                return self.inline(rpath, rargs, args, st, fr, site)
            return self.std_call(rpath, info, args, st)
        if 'trait' in c:
            res = self.late_resolve(c, targs, fr)
            if res is not None:
                kind, x, y = res
                if kind == 'local':
                    return self.inline(x, y, args, st, fr, site)
                if kind == 'identity':
                    return [(st, args[0])]
            info['self_ty'] = targs[0] if targs else None
            return self.std_call(c['path'], info, args, st)
        if c.get('local') and c['path'] in self.facts.fns:
            return self.inline(c['path'], targs, args, st, fr, site)
        return self.std_call(c['path'], info, args, st)

    def inline(self, path, targs, args, st, fr, site):
        fn = self.facts.fns[path]
        gm = {}
        names = [g for g in fn['generics']]
        # lifetimes are erased by the type parser; align the remaining generic names with type args
        tnames = [g for g in names if not g.startswith("'")]
        targs2 = [a for a in targs if not (a[0] == 'path' and a[1].startswith("'"))]
        for n, a in zip(tnames, targs2):
            gm[n] = a
        self.call_sites.append((fr.fn['path'], path, site['span'], 'local'))
        return self.eval_fn(path, args, st, gm, fr.depth + 1)

    def late_resolve(self, c, targs, fr):
        """resolve a trait-method call left generic by rustc, now that the frame's generic map
        gives concrete types"""
        if not targs:
            return None
        self_ty = targs[0]
        trait = c['trait']
        method = c['name']
        params_in_scope = set()
        if not tys.is_concrete(self_ty, set(fr.fn['generics'])) and not fr.gmap:
            return None
        if trait == 'std::convert::Into' and len(targs) >= 2:
            src, dst = targs[0], targs[1]
            if src == dst:
                return ('identity', None, None)
            r = self.find_impl('std::convert::From', dst, [src], 'from')
            return r
        if trait == 'std::convert::From' and len(targs) >= 2 and targs[0] == targs[1]:
            return ('identity', None, None)
        return self.find_impl(trait, self_ty, targs[1:], method)

    def find_impl(self, trait, self_ty, trait_args, method):
        for im in self.facts.impls:
            if im.get('trait_path') != trait:
                continue
            params = set(im.get('generics', []))
            if 'generics' not in im:
                # generic names = those of the impl's first fn item
                for it in im['items']:
                    f = self.facts.fns.get(it['path'])
                    if f:
                        params = set(g for g in f['generics'] if not g.startswith("'"))
                        break
            out = {}
            if not tys.unify(tys.parse(im['self']), self_ty, params, out):
                continue
            tpat = tys.parse(im['trait'])
            ok = True
            if tpat[0] == 'path' and tpat[2] and trait_args:
                for a, b in zip(tpat[2], trait_args):
                    if not tys.unify(a, b, params, out):
                        ok = False
                        break
            if not ok:
                continue
            for it in im['items']:
                if it['name'] == method and it['path'] in self.facts.fns:
                    f = self.facts.fns[it['path']]
                    tnames = [g for g in f['generics'] if not g.startswith("'")]
                    return ('local', it['path'], [out.get(n, ('path', n, ())) for n in tnames])
        return None

    def std_call(self, path, info, args, st):
        path = tys.strip_lifetimes(path)
        ax = self.axioms.lookup(path, info)
        self.call_sites.append((info['fr'].fn['path'], path, info['site']['span'], 'axiom' if ax else 'unknown'))
        if ax is None and 'trait' in info['c'] and info['c']['trait'] in self.facts.traits:
            # method of a crate-local trait on a type that is still generic here: uninterpreted but named
            name = info['c']['trait'] + '::' + info['c']['name']
            vals = tuple(self.deref(a, st) if a[0] == 'ref' else a for a in args)
            s2 = st.copy()
            for i, a in enumerate(args):
                if a[0] == 'ref':
                    self.store_at(info['fr'], a[1], a[2], ('call', 'post:%s#%d' % (name, i), vals), s2)
            return [(s2, ('call', 'trait:' + name, vals))]
        if ax is None:
            self.unknown_callees[path] = self.unknown_callees.get(path, 0) + 1
            # fail closed: result is opaque and every &mut argument is clobbered
            s2 = st
            for a in args:
                if a[0] == 'ref':
                    s2 = s2.copy() if s2 is st else s2
                    self.store_at(info['fr'], a[1], a[2], ('opaque', 'clobbered by %s' % path), s2)
            return [(s2, ('opaque', 'call to %s' % path))]
        return ax(self, st, info, args)

    def closure_bool(self, clo, args, st, fr, site=None):
        """apply a bool-valued closure whose body may branch; -> one boolean term (pure closures only)"""
        n = len(st.pc)
        res = T.FALSE
        for s2, v in self.apply_closure(clo, args, st, fr, site):
            c = v
            for a in s2.pc[n:]:
                c = T.band_bool(a, c)
            res = T.bor_bool(res, c)
        return res

    def apply_closure(self, clo, args, st, fr, site=None):
        """apply a closure / fn item value to argument terms -> list of (state, value)"""
        if clo[0] == 'closure':
            fn = self.facts.fns.get(clo[1])
            if fn is None:
                return [(st, ('opaque', 'closure body missing'))]
            # closure bodies take (env, args...) ; env by reference or value -> pass the closure value itself
            self.call_sites.append((fr.fn['path'], clo[1], (site or {}).get('span', '?'), 'closure'))
            gm = dict(ast.literal_eval(clo[3])) if len(clo) > 3 else dict(fr.gmap)
            return self.eval_fn(clo[1], [clo] + list(args), st, gm, fr.depth + 1)
        if clo[0] == 'fn':
            p = clo[1]
            # tuple-variant / struct constructors used as functions
            ctor = self.facts.ctor_index().get(p)
            if ctor is not None:
                adt, variant, fields = ctor
                return [(st, T.mk_adt(adt, variant, zip(fields, args)))]
            last = p.split('::')[-1]
            if last in ('Ok', 'Err') and ('Result' in p or 'prelude' in p):
                return [(st, T.mk_adt('std::result::Result', last, [('0', args[0])]))]
            if last == 'Some' and ('Option' in p or 'prelude' in p):
                return [(st, T.mk_adt('std::option::Option', 'Some', [('0', args[0])]))]
            if p in self.facts.fns:
                return self.eval_fn(p, list(args), st, {}, fr.depth + 1)
            ax = self.axioms.lookup(tys.strip_lifetimes(p), {'c': {'path': p}})
            if ax is not None:
                info = {'c': {'path': p, 'name': last}, 'targs': [tys.parse(a) for a in clo[2]], 'rargs': [tys.parse(a) for a in clo[2]],
                        'site': site or {'span': '?', 'fn': fr.fn['path']}, 'fr': fr}
                return ax(self, st, info, list(args))
            tr = p.rsplit('::', 1)[0]
            if tr in self.facts.traits:
                # a trait method used as a function value (`E::is_incomplete`): same as the method call
                c = {'trait': tr, 'name': last, 'path': p, 'args': list(clo[2])}
                return self.call(fr, c, list(args), st, site or {'span': '?', 'fn': fr.fn['path']})
            return [(st, ('call', 'fn:' + p, tuple(args)))]
        return [(st, ('opaque', 'call of non-function value'))]
