"""Token-layout theory for str::split / splitn (the token-layout axiom of DESIGN.md 4.3 made usable by the solver).

For src = split(text, limit, seps) with tokens tok(src, i) of lengths l_i:
  * the text is  tok0 sep tok1 sep ... tok_k  : consecutive, one separator byte between neighbours;
  * if token k is known to exist:                 len(text) >= l_0 + .. + l_k + k
  * if additionally token k+1 is known not to:    len(text)  = l_0 + .. + l_k + k
  * separator j (j < k) sits at byte position     P_j = l_0 + .. + l_j + j ;  tokens 0..limit-2 contain no separator byte,
    the last permitted token (index limit-1) is the unsplit remainder and may contain separators;
  * hence, when CR is a separator and the text contains a CR, the position of its first CR is one of the P_j (j < k),
    or lies inside the remainder token, or beyond the tokens known so far.
Only constant token ordinals are used; loop-carried ordinals (mu) are ignored (no fact is derived from them)."""
import terms as T

I = T.I
CR = 13


def sources(pos, negs):
    srcs = {}
    for a in list(pos) + list(negs):
        for t in T.subterms(a):
            if t[0] == 'call' and t[1] in ('tok', 'has_tok') and t[2][0][0] == 'call' and t[2][0][1] == 'split':
                srcs.setdefault(t[2][0], None)
    return list(srcs)


def facts(pos, negs):
    """-> (ineqs, alternatives) : linear facts (dict, const) meaning sum+const >= 0, and a list of alternative-sets; each alternative-set is
    a list of cases, each case a list of linear facts, at least one case of every set must hold.  (None, None) if nothing applies."""
    ineqs, alts = [], []
    for src in sources(pos, negs):
        text, limit, seps = src[2]
        if limit[0] != 'int' or seps[0] != 'bytes':
            continue
        lim = limit[1]
        known = [0]
        absent = []
        for a in pos:
            if a[0] == 'call' and a[1] == 'has_tok' and a[2][0] == src and a[2][1][0] == 'int':
                known.append(a[2][1][1])
        for a in negs:
            if a[0] == 'call' and a[1] == 'has_tok' and a[2][0] == src and a[2][1][0] == 'int':
                absent.append(a[2][1][1])
        # tokens mentioned at all imply they exist on this path (they are only ever produced by a successful next/peek)
        for a in list(pos) + list(negs):
            for t in T.subterms(a):
                if t[0] == 'call' and t[1] == 'tok' and t[2][0] == src and t[2][1][0] == 'int':
                    known.append(t[2][1][1])
        k = max(known)
        if absent and min(absent) <= k:
            return 'unsat', None          # a token is both present and absent
        closed = (k + 1) in absent or k == lim - 1
        ln = lambda i: T.mk_len(('call', 'tok', (src, I(i))))
        total = I(k)
        for i in range(k + 1):
            total = T.add(total, ln(i))
        n = T.mk_len(text)
        c0, m = T.to_lin(T.sub(n, total))
        ineqs.append((dict(m), c0))                       # len(text) - total >= 0
        if closed:
            ineqs.append(({x: -v for x, v in m.items()}, -c0))
        # a text ending in CR LF whose tokens are fully split ends with the token "\n" right after the separator CR at len-2
        crlf = ('call', 'ends_with', (text, ('bytes', b'\r\n')))
        if crlf in pos and CR in seps[1] and 10 not in seps[1] and (k + 1) in absent and 1 <= k < lim - 1:
            lf_tok = T.eq(('bytes', b'\n'), ('call', 'tok', (src, I(k))))
            if lf_tok in negs:
                return 'unsat', None
            d0, dm = T.to_lin(T.sub(ln(k), I(1)))
            ineqs.append((dict(dm), d0))
            ineqs.append(({x: -v for x, v in dm.items()}, -d0))
        # separator positions vs. the first CR
        if CR not in seps[1]:
            continue
        x = text[1] if text[0] == 'slice' and text[2] == I(0) else text
        has = ('call', 'has_byte', (x, I(CR)))
        if has not in pos:
            continue
        fb = ('call', 'first_byte', (x, I(CR)))
        inside = text == x or (text[0] == 'slice' and T.sub(text[3], fb)[0] == 'int' and T.sub(text[3], fb)[1] >= 1)
        if not inside:
            continue
        cases = []
        P = I(-1)
        for j in range(k):                               # separators 0..k-1
            P = T.add(T.add(P, ln(j)), I(1))             # P_j = l_0+..+l_j + j
            d0, dm = T.to_lin(T.sub(fb, P))
            cases.append([(dict(dm), d0), ({a: -v for a, v in dm.items()}, -d0)])
        # beyond / inside the last token considered
        Pk = T.add(T.add(P, ln(k)), I(1))                # position of the separator that would follow token k
        if k == lim - 1:
            # remainder token may contain separators: first CR >= start of token k
            start_k = T.add(P, I(1))
            d0, dm = T.to_lin(T.sub(fb, start_k))
            cases.append([(dict(dm), d0)])
        elif not closed:
            d0, dm = T.to_lin(T.sub(fb, Pk))
            cases.append([(dict(dm), d0)])
        alts.append(cases)
    return ineqs, alts
