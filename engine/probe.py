"""development probe: analyse entry points and print their guarded outcomes"""
import sys, json, time
sys.path.insert(0, '/verif/engine')
import facts as F, sumeval, axioms, terms as T

def load(path='/tmp/facts_dev.json'):
    return F.Facts(json.load(open(path)))

def show(fx, name, assume=None, verbose=True, maxo=400):
    ev = sumeval.Ev(fx, axioms)
    t0 = time.time()
    outs = ev.run_entry(name, assume=assume)
    print('==', name, '-> %d outcomes, %.2fs, unknown=%s' % (len(outs), time.time() - t0, ev.unknown_callees))
    if verbose:
        for o in outs[:maxo]:
            print('  IF', ' & '.join(T.short(a) for a in o['pc']) or 'true')
            print('   => ', T.short(o['ret']))
            for (v, loc) in o['params']:
                if loc is not None:
                    print('   ::', T.short(v), ':=', T.short(o['store'][loc]))
            for ob in o['obls']:
                print('      obl', ob['kind'], ob['site'], T.short(ob['cond']))
            for n in o['notes']:
                print('      note', n)
    return ev, outs

if __name__ == '__main__':
    fx = load()
    pats = sys.argv[1:]
    for f in fx.hand_written():
        if f['kind'] == 'Closure': continue
        if not pats or any(p in f['path'] for p in pats):
            try:
                show(fx, f['path'])
            except Exception as e:
                import traceback; traceback.print_exc()
                print('!!', f['path'], 'FAILED', e)
