"""Reference wire encodings (R-enc)."""
import terms as T
from spec import tables

I = T.I


def octets(x, n):
    o = ('call', 'octets%d' % n, (x,))
    T.KNOWN_LEN[o] = n
    return o


def addr_enc(a, var):
    """encoding of a v2::Addresses value `a` known to be variant `var`"""
    if var == 'Unspecified':
        return ('bytes', b'')
    p = ('vfield', a, var, '0') if a[0] != 'adt' else T.adt_field(a, '0')

    def f(name):
        return T.adt_field(p, name) if p[0] == 'adt' else ('field', p, name)
    if var in ('IPv4', 'IPv6'):
        for port in ('source_port', 'destination_port'):
            if f(port)[0] in ('field', 'vfield', 'param'):
                T.TYPES.setdefault(f(port), 'u16')
                T.NUMERIC[f(port)] = True
        n = 4 if var == 'IPv4' else 16
        return T.mk_concat([octets(f('source_address'), n), octets(f('destination_address'), n),
                            T.mk_tobytes('tobe', 2, f('source_port')), T.mk_tobytes('tobe', 2, f('destination_port'))])
    for fld in ('source', 'destination'):
        if f(fld)[0] not in T.SEQ_TAGS:
            T.KNOWN_LEN[f(fld)] = 108
    return T.mk_concat([f('source'), f('destination')])


def tlv_enc(kind, value):
    return T.mk_concat([('arr', (kind,)), T.mk_tobytes('tobe', 2, T.mk_len(value)), value])


def fixed(vc, afp, length_bytes):
    return T.mk_concat([('bytes', tables.V2_SIG), ('arr', (vc,)), ('arr', (afp,)), length_bytes])
