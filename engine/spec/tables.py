"""Oracle tables transcribed from the property statements / the PROXY protocol specification
(NOT from the repository)."""

V2_SIG = bytes([0x0D, 0x0A, 0x0D, 0x0A, 0x00, 0x0D, 0x0A, 0x51, 0x55, 0x49, 0x54, 0x0A])
VERSION = {0x20: 'Two'}
COMMANDS = {0x00: 'Local', 0x01: 'Proxy'}
FAMILIES = {0x00: 'Unspecified', 0x10: 'IPv4', 0x20: 'IPv6', 0x30: 'Unix'}
FAMILY_SIZE = {'Unspecified': 0, 'IPv4': 12, 'IPv6': 36, 'Unix': 216}
TRANSPORTS = {0x00: 'Unspecified', 0x01: 'Stream', 0x02: 'Datagram'}
TLV_TYPES = {'ALPN': 0x01, 'Authority': 0x02, 'CRC32C': 0x03, 'NoOp': 0x04, 'UniqueId': 0x05, 'SSL': 0x20,
             'SSLVersion': 0x21, 'SSLCommonName': 0x22, 'SSLCipher': 0x23, 'SSLSignatureAlgorithm': 0x24,
             'SSLKeyAlgorithm': 0x25, 'NetworkNamespace': 0x30}
V2_FIXED = 16
TLV_HEADER = 3
U16_MAX = 65535

V1_PREFIX = b'PROXY'
V1_SUFFIX = b'\r\n'
V1_TCP4, V1_TCP6, V1_UNKNOWN = b'TCP4', b'TCP6', b'UNKNOWN'
V1_SEP = 0x20
V1_CR = 0x0D
V1_MAX = 107

# completeness classes of every error variant (C05 / C12 / C17 / C18)
V1_INCOMPLETE = {'Partial', 'MissingPrefix', 'MissingProtocol', 'MissingSourceAddress', 'MissingDestinationAddress',
                 'MissingSourcePort', 'MissingDestinationPort', 'MissingNewLine'}
V1_TERMINAL = {'InvalidPrefix', 'HeaderTooLong', 'InvalidProtocol', 'InvalidSuffix', 'InvalidSourceAddress',
               'InvalidDestinationAddress', 'InvalidSourcePort', 'InvalidDestinationPort'}
V1B_TERMINAL = {'InvalidUtf8'}        # BinaryParseError::Parse(e) has the class of e
V2_INCOMPLETE = {'Incomplete', 'Partial'}
V2_TERMINAL = {'Prefix', 'Version', 'Command', 'AddressFamily', 'Protocol', 'InvalidAddresses', 'InvalidTLV', 'Leftovers'}

# public paths by which the oracle refers to the code
V1_HEADER, V1_ADDR = 'v1::model::Header<>', 'v1::model::Addresses'
V2_HEADER, V2_ADDR = 'v2::model::Header<>', 'v2::model::Addresses'
V1_ERR, V1_BERR, V2_ERR = 'v1::error::ParseError', 'v1::error::BinaryParseError', 'v2::error::ParseError'
