"""Type invariants of parsed values, proved at their only construction sites (DESIGN.md C03.O)."""
from rules.common import *
from spec import tables


def inv2_atoms(h, addresses, variant):
    """INV2(h) for a v2 header whose `addresses` value is `variant`:
       len(header) = 16 + be(header[14..16]) >= 16 + size(family)"""
    L = T.mk_be((T.mk_at(h, I(14)), T.mk_at(h, I(15))))
    return [('isvar', addresses, variant), T.eq0(T.sub(T.mk_len(h), T.add(I(16), L))), T.cmp('Ge', L, I(tables.FAMILY_SIZE[variant]))]


def establish_inv2(ctx, R, rule):
    """Check that every accepting outcome of the v2 parser constructs a header satisfying INV2,
    and that the derived Clone / to_owned preserve the fields (C16.O covers to_owned)."""
    p = ctx.method(tables.V2_HEADER, 'try_from', 'std::convert::TryFrom<&[u8]>')
    ev, outs = ctx.entry(p)
    if not outs:
        R.require(False, rule, 'INV2', 'no summary of the v2 parser')
        return False
    n = 0
    allok = True
    for o in outs:
        r = o['ret']
        if not match(r, OK(ANY)):
            continue
        hdr = T.adt_field(r, '0')
        if hdr[0] != 'adt':
            R.inst(rule, 'INV2/constructed-value', False, expected='a constructed Header', found=hdr, entry=p)
            allok = False
            continue
        h = T.adt_field(hdr, 'header')
        h = h[4][0] if h[0] == 'adt' and h[1] == 'std::borrow::Cow' else h
        a = T.adt_field(hdr, 'addresses')
        L = T.mk_be((T.mk_at(h, I(14)), T.mk_at(h, I(15))))
        ok1 = solver.entails(o['pc'], T.eq0(T.sub(T.mk_len(h), T.add(I(16), L))))
        var = a[2] if a[0] == 'adt' else None
        # the address value's kind is the image of the family nibble on the wire
        inp = h[1] if h[0] == 'slice' else h
        fam = T.bitop('band', T.mk_at(inp, I(13)), I(0xF0))
        wire = [name for code, name in tables.FAMILIES.items() if solver.entails(o['pc'], T.eq0(T.sub(fam, I(code))))]
        R.inst(rule, 'INV2/address-kind-is-the-wire-family', wire == [var], expected='addresses variant = family of (header[13] & 0xF0) = %s' % wire, found=str(var), entry=p)
        allok = allok and wire == [var]
        ok2 = var in tables.FAMILY_SIZE and solver.entails(o['pc'], T.cmp('Ge', L, I(tables.FAMILY_SIZE[var])))
        n += 1
        R.inst(rule, 'INV2/len=16+L>=16+size', ok1 and ok2, expected='len(header) = 16 + be(header[14..16]) >= 16 + size(%s)' % var,
               found='header = %s under %s' % (T.short(h), pc_text(o['pc'], 6)), entry=p)
        allok = allok and ok1 and ok2
    R.floor('accepting outcomes establishing INV2', n, 24)
    # the only other way to obtain a Header is its public fields (struct literal by the caller): outside "values returned by parsing"
    return allok
