"""Reference decision table of the v2 parser (R-v2-parse in notes/reference_summaries.md), in the
term language.  Each row: name, cond (atoms), ret: {property id or '*': pattern}."""
import terms as T
from framework import ANY
from spec.tables import *
from rules.common import adtl, OK, ERR, borrowed

I = T.I
HDR, ADDR, ERRT = 'v2::model::Header', 'v2::model::Addresses', 'v2::error::ParseError'


def in_set(t, vals):
    r = T.FALSE
    for v in vals:
        r = T.bor_bool(r, T.eq0(T.sub(t, I(v))))
    return r


def not_in(t, vals):
    r = T.TRUE
    for v in vals:
        r = T.band_bool(r, T.bnot(T.eq0(T.sub(t, I(v)))))
    return r


def err(variant, *payload):
    return ERR(adtl(ERRT, variant, [(str(i), p) for i, p in enumerate(payload)]))


def ip(path, sa, da, sp, dp):
    return adtl(path, path.split('::')[-1], [('source_address', sa), ('source_port', sp), ('destination_address', da), ('destination_port', dp)])


def be16(inp, k):
    return T.mk_be((T.mk_at(inp, I(k)), T.mk_at(inp, I(k + 1))))


def addresses(inp, fam):
    sl = lambda a, b: T.mk_slice(inp, I(a), I(b))
    if fam == 'Unspecified':
        return adtl(ADDR, 'Unspecified', [])
    if fam == 'IPv4':
        return adtl(ADDR, 'IPv4', [('0', ip('ip::IPv4', ('call', 'ipv4', (sl(16, 20),)), ('call', 'ipv4', (sl(20, 24),)), be16(inp, 24), be16(inp, 26)))])
    if fam == 'IPv6':
        return adtl(ADDR, 'IPv6', [('0', ip('ip::IPv6', ('call', 'ipv6', (sl(16, 32),)), ('call', 'ipv6', (sl(32, 48),)), be16(inp, 48), be16(inp, 50)))])
    if fam == 'Unix':
        return adtl(ADDR, 'Unix', [('0', adtl('v2::model::Unix', 'Unix', [('source', sl(16, 124)), ('destination', sl(124, 232))]))])


def features(inp):
    n = T.mk_len(inp)
    sig = ('bytes', V2_SIG)
    f = {
        'n': n,
        'SIGPFX': ('call', 'starts_with', (sig, inp)),
        'SIGEQ': T.eq(T.mk_slice(inp, I(0), I(12)), sig),
        'ver': T.bitop('band', T.mk_at(inp, I(12)), I(0xF0)),
        'cmd': T.bitop('band', T.mk_at(inp, I(12)), I(0x0F)),
        'fam': T.bitop('band', T.mk_at(inp, I(13)), I(0xF0)),
        'trn': T.bitop('band', T.mk_at(inp, I(13)), I(0x0F)),
        'L': be16(inp, 14),
    }
    return f


def table(inp):
    f = features(inp)
    n, L = f['n'], f['L']
    ver_ok, cmd_ok = in_set(f['ver'], VERSION), in_set(f['cmd'], COMMANDS)
    fam_ok, trn_ok = in_set(f['fam'], FAMILIES), in_set(f['trn'], TRANSPORTS)
    ver_bad, cmd_bad = not_in(f['ver'], VERSION), not_in(f['cmd'], COMMANDS)
    fam_bad, trn_bad = not_in(f['fam'], FAMILIES), not_in(f['trn'], TRANSPORTS)
    full = [T.cmp('Ge', n, I(16)), f['SIGEQ']]
    rows = []

    def row(name, cond, **ret):
        rows.append({'name': name, 'cond': cond, 'ret': ret})

    row('short/signature-prefix', [T.cmp('Lt', n, I(12)), f['SIGPFX']],
        C17=err('Incomplete', n), C05=err('Incomplete', ANY), C02=ERR(ANY), C12=None)
    row('short/not-a-prefix', [T.cmp('Lt', n, I(12)), T.bnot(f['SIGPFX'])],
        C12=err('Prefix'), C02=ERR(ANY), C08=err('Prefix'))
    row('signature-mismatch', [T.cmp('Ge', n, I(12)), T.bnot(f['SIGEQ'])],
        C12=err('Prefix'), C02=ERR(ANY), C08=err('Prefix'))
    row('fixed-part-incomplete', [T.cmp('Ge', n, I(12)), T.cmp('Lt', n, I(16)), f['SIGEQ']],
        C17=err('Incomplete', n), C05=err('Incomplete', ANY), C02=ERR(ANY))
    row('some-control-nibble-invalid', full + [T.bor_bool(T.bor_bool(ver_bad, cmd_bad), T.bor_bool(fam_bad, trn_bad))],
        C02=ERR(ANY))
    row('only-version-invalid', full + [ver_bad, cmd_ok, fam_ok, trn_ok], C12=err('Version', f['ver']), C02=ERR(ANY))
    row('only-command-invalid', full + [ver_ok, cmd_bad, fam_ok, trn_ok], C12=err('Command', f['cmd']), C02=ERR(ANY))
    row('only-family-invalid', full + [ver_ok, cmd_ok, fam_bad, trn_ok], C12=err('AddressFamily', f['fam']), C02=ERR(ANY))
    row('only-transport-invalid', full + [ver_ok, cmd_ok, fam_ok, trn_bad], C12=err('Protocol', f['trn']), C02=ERR(ANY))
    for fcode, fam in FAMILIES.items():
        sz = FAMILY_SIZE[fam]
        base = full + [ver_ok, cmd_ok, trn_ok, T.eq0(T.sub(f['fam'], I(fcode)))]
        if sz > 0:
            row('length-below-%s-block' % fam, base + [T.cmp('Lt', L, I(sz))],
                C12=err('InvalidAddresses', L, I(sz)), C02=ERR(ANY), C17=('not_err_variants', ('Partial', 'Incomplete')), C05=None)
        row('payload-incomplete/%s' % fam, base + [T.cmp('Ge', L, I(sz)), T.cmp('Lt', n, T.add(I(16), L))],
            C17=err('Partial', T.sub(n, I(16)), L), C05=err('Partial', ANY, ANY), C02=ERR(ANY))
        for ccode, cmd in COMMANDS.items():
            for tcode, trn in TRANSPORTS.items():
                cond = full + [T.eq0(T.sub(f['ver'], I(0x20))), T.eq0(T.sub(f['cmd'], I(ccode))), T.eq0(T.sub(f['fam'], I(fcode))),
                               T.eq0(T.sub(f['trn'], I(tcode))), T.cmp('Ge', L, I(sz)), T.cmp('Ge', n, T.add(I(16), L))]
                hdr = adtl(HDR, 'Header', [
                    ('header', borrowed(T.mk_slice(inp, I(0), T.add(I(16), L)))),
                    ('version', adtl('v2::model::Version', 'Two', [])),
                    ('command', adtl('v2::model::Command', cmd, [])),
                    ('protocol', adtl('v2::model::Protocol', trn, [])),
                    ('addresses', addresses(inp, fam))])
                row('accept/%s/%s/%s' % (cmd, fam, trn), cond, C02=OK(hdr), C04=OK(hdr), C14=OK(hdr), C17=OK(ANY))
    return rows


def rows_for(inp, pid):
    """rows carrying an expectation for property pid (others are kept with ret None so that the
    table stays exhaustive)"""
    out = []
    for r in table(inp):
        out.append({'name': r['name'], 'cond': r['cond'], 'ret': r['ret'].get(pid), 'optional': r['ret'].get(pid) is None})
    return out
