"""Completeness classification rules shared by C05 / C06 / C12 / C17 / C18 (R-classify)."""
from rules.common import *
from spec import tables


def classification(ctx, R, rule, only=None, enums=None):
    """Decide, for every variant of the three error enums, the constant returned by its
    PartialResult::is_incomplete impl, and compare with the oracle table.  Returns dict
    enum path -> {variant: bool} of the *extracted* classification."""
    result = {}
    for (enum, inc, term) in ((tables.V1_ERR, tables.V1_INCOMPLETE, tables.V1_TERMINAL),
                              (tables.V2_ERR, tables.V2_INCOMPLETE, tables.V2_TERMINAL)):
        if enums is not None and enum not in enums:
            continue
        a = ctx.fx.adts.get(enum)
        if not R.require(a is not None, rule, enum, 'error enum missing'):
            continue
        p = ctx.method(enum, 'is_incomplete', 'PartialResult')
        ev, outs = ctx.entry(p)
        if not outs:
            continue
        s = P(ctx, p, 0)
        res = {}
        for v in a['variants']:
            name = v['name']
            vals = set()
            for o in outs:
                if solver.sat(list(o['pc']) + [('isvar', s, name)]):
                    vals.add(o['ret'])
            if only == 'terminal' and name in inc or only == 'incomplete' and name in term:
                continue
            if name in inc:
                want = T.TRUE
            elif name in term:
                want = T.FALSE
            else:
                R.inst(rule, 'class/%s::%s' % (enum, name), False, expected='a variant classified by the oracle', found='unknown variant',
                       entry=p, kind='anchor-missing')
                continue
            ok = vals == {want}
            res[name] = (vals == {T.TRUE})
            R.inst(rule, 'class/%s::%s' % (enum, name), ok, expected='incomplete' if want == T.TRUE else 'terminal',
                   found=' | '.join(sorted(T.short(x) for x in vals)), entry=p)
        missing = (inc | term) - {v['name'] for v in a['variants']}
        R.inst(rule, 'variants/' + enum, not missing, expected='all oracle variants present', found='missing %s' % sorted(missing), entry=p)
        result[enum] = res
    # BinaryParseError: Parse(e) -> class(e); InvalidUtf8 -> terminal
    enum = tables.V1_BERR
    a = ctx.fx.adts.get(enum)
    if enums is not None and enum not in enums:
        return result
    if R.require(a is not None, rule, enum, 'error enum missing'):
        p = ctx.method(enum, 'is_incomplete', 'PartialResult')
        ev, outs = ctx.entry(p)
        if outs:
            s = P(ctx, p, 0)
            inner = ('vfield', s, 'Parse', '0')
            for v in a['variants']:
                name = v['name']
                if name == 'Parse':
                    for iv in ctx.fx.adts[tables.V1_ERR]['variants']:
                        if only == 'terminal' and iv['name'] in tables.V1_INCOMPLETE or only == 'incomplete' and iv['name'] in tables.V1_TERMINAL:
                            continue
                        vals = {o['ret'] for o in outs if solver.sat(list(o['pc']) + [('isvar', s, 'Parse'), ('isvar', inner, iv['name'])])}
                        want = T.TRUE if iv['name'] in tables.V1_INCOMPLETE else T.FALSE
                        R.inst(rule, 'class/%s::Parse(%s)' % (enum, iv['name']), vals == {want},
                               expected='incomplete' if want == T.TRUE else 'terminal', found=' | '.join(sorted(T.short(x) for x in vals)), entry=p)
                elif name in tables.V1B_TERMINAL and only == 'incomplete':
                    continue
                elif name in tables.V1B_TERMINAL:
                    vals = {o['ret'] for o in outs if solver.sat(list(o['pc']) + [('isvar', s, name)])}
                    R.inst(rule, 'class/%s::%s' % (enum, name), vals == {T.FALSE}, expected='terminal',
                           found=' | '.join(sorted(T.short(x) for x in vals)), entry=p)
                else:
                    R.inst(rule, 'class/%s::%s' % (enum, name), False, expected='a variant classified by the oracle', found='unknown variant',
                           entry=p, kind='anchor-missing')
    return result


def flag_algebra(ctx, R, rule):
    """C05.N: is_complete is the (non-overridden) negation of is_incomplete; Result: Ok -> false, Err(e) -> class(e);
    HeaderResult delegates to the wrapped result."""
    tr = ctx.fx.traits.get('PartialResult')
    if not R.require(tr is not None, rule, 'PartialResult', 'trait missing'):
        return
    R.inst(rule, 'trait-shape', tr['provided'] == ['is_complete'] and tr['required'] == ['is_incomplete'],
           expected="provided ['is_complete'], required ['is_incomplete']", found='provided %s, required %s' % (tr['provided'], tr['required']),
           entry='PartialResult', nontrivial=True)
    impls = [im for im in ctx.fx.impls if im.get('trait_path') == 'PartialResult']
    for im in impls:
        names = sorted(it['name'] for it in im['items'])
        R.inst(rule, 'no-override/' + strip(im['self']), names == ['is_incomplete'], expected="['is_incomplete']", found=str(names), entry='impl PartialResult for ' + strip(im['self']))
    R.floor('PartialResult impls', len(impls), 5)
    # default body
    p = 'PartialResult::is_complete'
    ev, outs = ctx.entry(p)
    if outs:
        s = P(ctx, p, 0)
        call = ('call', 'trait:PartialResult::is_incomplete', (s,))
        for o in outs:
            want = T.FALSE if call in o['pc'] else T.TRUE if T.bnot(call) in o['pc'] else T.bnot(call)
            R.inst(rule, 'is_complete = !is_incomplete', o['ret'] == want, expected=want, found=o['ret'], entry=p,
                   note='under ' + pc_text(o['pc']))
        R.inst(rule, 'is_complete/outcomes', 1 <= len(outs) <= 2, expected='1 or 2 outcomes', found=str(len(outs)), entry=p)
    # Result<T, E>
    p = ctx.method('std::result::Result<T, E>', 'is_incomplete', 'PartialResult')
    ev, outs = ctx.entry(p)
    if outs:
        s = P(ctx, p, 0)
        e = ('vfield', s, 'Err', '0')
        call = ('call', 'trait:PartialResult::is_incomplete', (e,))
        rows = [{'name': 'Result::Ok -> not incomplete', 'cond': [('isvar', s, 'Ok')], 'ret': T.FALSE},
                {'name': 'Result::Err(e) -> e.is_incomplete()', 'cond': [('isvar', s, 'Err')], 'ret': call}]
        check_rows(R, rule, p, outs, rows)
    # HeaderResult: the flag of the wrapped result - Ok is complete, Err(e) has the class of e (semantic comparison over the fully inlined
    # method, so it does not matter whether the impl delegates to Result's impl or matches the nested patterns itself)
    p = ctx.method('HeaderResult<>', 'is_incomplete', 'PartialResult')
    ev, outs = ctx.entry(p)
    if outs:
        s = P(ctx, p, 0)
        cases = []
        for v, errenum in (('V1', tables.V1_BERR), ('V2', tables.V2_ERR)):
            r = ('vfield', s, v, '0')
            e = ('vfield', r, 'Err', '0')
            cases.append(('%s(Ok)' % v, [('isvar', s, v), ('isvar', r, 'Ok')], T.FALSE))
            if v == 'V1':
                inner = ('vfield', e, 'Parse', '0')
                for iv in ctx.fx.adts[tables.V1_ERR]['variants']:
                    cases.append(('V1(Err(Parse(%s)))' % iv['name'], [('isvar', s, v), ('isvar', r, 'Err'), ('isvar', e, 'Parse'), ('isvar', inner, iv['name'])],
                                  T.TRUE if iv['name'] in tables.V1_INCOMPLETE else T.FALSE))
                for name in sorted(tables.V1B_TERMINAL):
                    cases.append(('V1(Err(%s))' % name, [('isvar', s, v), ('isvar', r, 'Err'), ('isvar', e, name)], T.FALSE))
            else:
                for iv in ctx.fx.adts[tables.V2_ERR]['variants']:
                    cases.append(('V2(Err(%s))' % iv['name'], [('isvar', s, v), ('isvar', r, 'Err'), ('isvar', e, iv['name'])],
                                  T.TRUE if iv['name'] in tables.V2_INCOMPLETE else T.FALSE))
        for name, cond, want in cases:
            vals = {o['ret'] for o in outs if solver.sat(list(o['pc']) + cond)}
            R.inst(rule, 'HeaderResult::is_incomplete/' + name, vals == {want}, expected='incomplete' if want == T.TRUE else 'complete',
                   found=' | '.join(sorted(T.short(x) for x in vals)) or 'no outcome', entry=p)
