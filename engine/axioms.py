"""Trusted base: axioms for the std functions the analysed code calls (DESIGN.md 4.3).

Each axiom maps (state, argument terms) to a list of (state, result term) alternatives, adds
the panic condition of the callee (if any) as an obligation, and applies the callee's effect on
`&mut` arguments.  A callee without an axiom is *unknown*: its result is opaque and poisons
whatever depends on it (fail closed)."""
import re
import terms as T
import tys
import solver

I = T.I
CURRENT_EV = None
AX = {}
TOTAL_NOTE = {}     # axiom key -> one-line statement of what is trusted (echoed in evidence)


def ax(*keys, note=None):
    def deco(f):
        for k in keys:
            AX[k] = f
            if note:
                TOTAL_NOTE[k] = note
        return f
    return deco


def lookup(path, info):
    f = AX.get(path)
    if f is not None:
        return f
    m = re.match(r"core::num::<impl ([iu](?:8|16|32|64|128|size))>::(\w+)$", path)
    if m:
        return num_method(m.group(1), m.group(2))
    m = re.match(r".*<impl std::convert::From<(\w+)> for (\w+)>::from$", path)
    if m and m.group(1) in solver.INT_RANGES and m.group(2) in solver.INT_RANGES:
        rs, rd = solver.INT_RANGES[m.group(1)], solver.INT_RANGES[m.group(2)]
        if rs[0] >= rd[0] and rs[1] <= rd[1]:
            return a_from_id          # lossless integer widening
    if re.match(r"^<(std|core|alloc)::[^ ]+( as|<.*> as) std::clone::Clone>::clone$", path) or re.match(r"^core::clone::impls::<impl std::clone::Clone for [\w&]+>::clone$", path):
        return a_clone_value      # Clone of a std value type yields an equal value
    m = re.match(r"^(?:<&?(\w+) as std::ops::(Add|Sub|Mul)<&?(\w+)>>|core::ops::arith::<impl std::ops::(Add|Sub|Mul)<&?(\w+)> for &?(\w+)>)::(add|sub|mul)$", path)
    if m:
        g = m.groups()
        ity = g[0] or g[5]
        other = g[2] or g[4]
        if ity in solver.INT_RANGES and other == ity:
            op = g[6]
            return lambda ev, st, info, args, op=op, ity=ity: int_arith_by_ref(ev, st, info, args, op, ity)
    m = re.match(r".*<impl std::convert::TryFrom<(\w+)> for (\w+)>::try_from$", path)
    if m and m.group(1) in solver.INT_RANGES and m.group(2) in solver.INT_RANGES:
        dst = m.group(2)
        return lambda ev, st, info, args, dst=dst: try_from_int(ev, st, info, args, dst)
    return None


# ------------------------------------------------------------------------------------------
# helpers

def oblige(st, info, kind, cond, detail=''):
    """record panic obligation `cond` (must hold) and assume it afterwards"""
    ob = {'kind': kind, 'site': info['site']['span'], 'fn': info['site']['fn'], 'cond': cond,
          'pc': list(st.pc), 'detail': detail, 'exp': info['site'].get('exp', False)}
    st.obls.append(ob)
    if CURRENT_EV is not None:
        CURRENT_EV.all_obls.append(ob)
    if cond == T.FALSE:
        return False
    if cond != T.TRUE and cond not in st.pc:
        st.pc.append(cond)
    return True


def content(v):
    """byte/str content of a Cow / Vec / slice value"""
    if v[0] == 'adt' and v[1] == 'std::borrow::Cow' and len(v[4]) == 1:
        return content(v[4][0])
    return v


def some(x):
    return T.mk_adt('std::option::Option', 'Some', [('0', x)])


NONE = T.mk_adt('std::option::Option', 'None', [])


def ok(x):
    return T.mk_adt('std::result::Result', 'Ok', [('0', x)])


def err(x):
    return T.mk_adt('std::result::Result', 'Err', [('0', x)])


def fork_bool(st, cond):
    """-> [(state, True/False)] for feasible truth values of boolean term cond"""
    if cond == T.TRUE:
        return [(st, True)]
    if cond == T.FALSE:
        return [(st, False)]
    outs = []
    neg = T.bnot(cond)
    if cond in st.pc:
        return [(st, True)]
    if neg in st.pc:
        return [(st, False)]
    for val, atom in ((True, cond), (False, neg)):
        s2 = st.copy()
        s2.pc.append(atom)
        if solver.sat(s2.pc):
            outs.append((s2, val))
    return outs


def fork_enum(st, v, enum, variants):
    """-> [(state, variant name, payload getter)] for an Option/Result-like value"""
    if v[0] == 'adt':
        return [(st, v[2], lambda name, v=v: T.adt_field(v, name))]
    if v[0] == 'opaque':
        return [(st, variants[0], lambda name, v=v: v), (st.copy(), variants[1], lambda name, v=v: v)]
    outs = []
    for var in variants:
        s2 = st.copy()
        s2.pc.append(('isvar', v, var))
        if solver.sat(s2.pc):
            outs.append((s2, var, lambda name, v=v, var=var: ('vfield', v, var, name)))
    return outs


def write_ref(ev, st, info, r, val):
    if r[0] != 'ref':
        st.notes.append(('unsupported', 'write through non-reference', info['site']['span']))
        return
    ev.store_at(info['fr'], r[1], r[2], val, st)


def ty_arg(info, i, which='rargs'):
    a = info.get(which) or info.get('targs') or []
    return a[i] if i < len(a) else None


def default_of(ty):
    if ty is None:
        return ('opaque', 'default of unknown type')
    s = tys.show(ty)
    if s in solver.INT_RANGES:
        return I(0)
    if ty[0] == 'path' and ty[1] in ('std::vec::Vec', 'std::string::String'):
        return ('bytes', b'')
    if ty[0] == 'path' and ty[1] == 'std::option::Option':
        return NONE
    return ('call', 'default:' + s, ())


# ------------------------------------------------------------------------------------------
# slices / str

@ax('core::slice::<impl [T]>::len', 'core::str::<impl str>::len', 'std::vec::Vec::<T, A>::len',
    'std::string::String::len', note='len() is the number of bytes; total')
def a_len(ev, st, info, args):
    return [(st, T.mk_len(content(args[0])))]


@ax('core::slice::<impl [T]>::is_empty', 'core::str::<impl str>::is_empty', 'std::vec::Vec::<T, A>::is_empty',
    note='is_empty() <=> len() == 0; total')
def a_is_empty(ev, st, info, args):
    return [(st, T.eq0(T.mk_len(content(args[0]))))]


def range_bounds(r, n):
    """range value -> (lo, hi) terms, or None"""
    if r[0] == 'adt':
        name = r[1]
        if name == 'std::ops::Range':
            return T.adt_field(r, 'start'), T.adt_field(r, 'end')
        if name == 'std::ops::RangeTo':
            return I(0), T.adt_field(r, 'end')
        if name == 'std::ops::RangeFrom':
            return T.adt_field(r, 'start'), n
        if name == 'std::ops::RangeFull':
            return I(0), n
        if name == 'std::ops::RangeToInclusive':
            return I(0), T.add(T.adt_field(r, 'end'), I(1))
        if name == '$RangeInclusive':
            return T.adt_field(r, 'start'), T.add(T.adt_field(r, 'end'), I(1))
    return None


@ax('std::iter::range::<impl std::iter::Iterator for std::ops::Range<A>>::next',
    note='(a..b).next() over integers: Some(a) and a += 1 while a < b, else None')
def a_range_next(ev, st, info, args):
    r = ev.deref(args[0], st) if args[0][0] == 'ref' else args[0]
    if not (r[0] == 'adt' and r[1] == 'std::ops::Range'):
        return [(st, ('opaque', 'next on a range that is not an explicit start..end value'))]
    lo, hi = T.adt_field(r, 'start'), T.adt_field(r, 'end')
    outs = []
    for s2, val in fork_bool(st, T.cmp('Lt', lo, hi)):
        if val:
            write_ref(ev, s2, info, args[0], T.adt_with(r, 'start', T.add(lo, I(1))))
            outs.append((s2, some(lo)))
        else:
            outs.append((s2, NONE))
    return outs


@ax('std::ops::RangeInclusive::<Idx>::new', note='RangeInclusive::new(a,b) is a..=b')
def a_range_incl(ev, st, info, args):
    return [(st, T.mk_adt('$RangeInclusive', 'R', [('start', args[0]), ('end', args[1])]))]


def index_common(ev, st, info, seq, rng, is_str):
    n = T.mk_len(seq)
    if rng[0] != 'adt':
        # plain usize index on Vec
        if T.is_numeric(rng):
            if not oblige(st, info, 'index', T.cmp('Lt', rng, n), 'index < len'):
                return None
            return ('elem', rng)
        return ('opaque',)
    b = range_bounds(rng, n)
    if b is None:
        return ('opaque',)
    lo, hi = b
    if not oblige(st, info, 'slice_order', T.cmp('Le', lo, hi), 'start <= end'):
        return None
    if not oblige(st, info, 'slice_end', T.cmp('Le', hi, n), 'end <= len'):
        return None
    if is_str:
        for which, idx in (('start', lo), ('end', hi)):
            if idx == I(0) or idx == n:
                continue
            ob = {'kind': 'char_boundary', 'site': info['site']['span'], 'fn': info['site']['fn'],
                  'cond': ('call', 'is_char_boundary', (seq, idx)), 'pc': list(st.pc), 'detail': which, 'exp': False}
            st.obls.append(ob)
            if CURRENT_EV is not None:
                CURRENT_EV.all_obls.append(ob)
    return ('range', lo, hi)


@ax('core::slice::index::<impl std::ops::Index<I> for [T]>::index', '<std::vec::Vec<T, A> as std::ops::Index<I>>::index',
    'std::array::<impl std::ops::Index<I> for [T; N]>::index',
    note='slice[range] panics unless start <= end <= len; result is that sub-slice')
def a_index(ev, st, info, args):
    seq = content(args[0])
    r = index_common(ev, st, info, seq, args[1], False)
    if r is None:
        return []
    if r[0] == 'range':
        return [(st, T.mk_slice(seq, r[1], r[2]))]
    if r[0] == 'elem':
        return [(st, T.mk_at(seq, r[1]))]
    return [(st, ('opaque', 'index with unknown range type'))]


@ax('core::str::traits::<impl std::ops::Index<I> for str>::index',
    note='str[range] panics unless start <= end <= len and both are char boundaries')
def a_str_index(ev, st, info, args):
    seq = content(args[0])
    r = index_common(ev, st, info, seq, args[1], True)
    if r is None:
        return []
    if r[0] == 'range':
        return [(st, T.mk_slice(seq, r[1], r[2]))]
    return [(st, ('opaque', 'str index with unknown range type'))]


@ax('<std::vec::Vec<T, A> as std::ops::IndexMut<I>>::index_mut', 'std::array::<impl std::ops::IndexMut<I> for [T; N]>::index_mut',
    'core::slice::index::<impl std::ops::IndexMut<I> for [T]>::index_mut',
    note='slice[range] (mutable) panics unless start <= end <= len')
def a_index_mut(ev, st, info, args):
    r0 = args[0]
    if r0[0] != 'ref':
        return [(st, ('opaque', 'index_mut on untracked storage'))]
    seq = content(ev.deref(r0, st))
    r = index_common(ev, st, info, seq, args[1], False)
    if r is None:
        return []
    if r[0] == 'range':
        return [(st, sub_ref(r0, ('r', r[1], r[2])))]
    if r[0] == 'elem':
        return [(st, sub_ref(r0, ('i', r[1])))]
    return [(st, ('opaque', 'index_mut with unknown range type'))]


def sub_ref(r0, step):
    """reference to a sub-range / element of what r0 refers to; a range of a range is one range of the underlying sequence"""
    path = tuple(r0[2])
    if path and path[-1][0] == 'r':
        lo0 = path[-1][1]
        if step[0] == 'r':
            return ('ref', r0[1], path[:-1] + (('r', T.add(lo0, step[1]), T.add(lo0, step[2])),))
        if step[0] == 'i':
            return ('ref', r0[1], path[:-1] + (('i', T.add(lo0, step[1])),))
    return ('ref', r0[1], path + (step,))


@ax('core::slice::<impl [T]>::reverse', note='reverse() reverses the elements in place; total')
def a_reverse(ev, st, info, args):
    r0 = args[0]
    if r0[0] != 'ref':
        return [(st, ('opaque', 'reverse on untracked storage'))]
    seq = content(ev.deref(r0, st))
    out = None
    if seq[0] in ('tole', 'tobe'):
        out = T.mk_tobytes('tobe' if seq[0] == 'tole' else 'tole', seq[1], seq[2])
    elif seq[0] == 'bytes':
        out = ('bytes', seq[1][::-1])
    elif seq[0] == 'arr':
        out = ('arr', tuple(reversed(seq[1])))
    else:
        n = T.mk_len(seq)
        if n[0] == 'int' and n[1] <= 64:
            out = T.canon_seq(('arr', tuple(T.mk_at(seq, I(n[1] - 1 - k)) for k in range(n[1]))))
    if out is None:
        out = ('call', 'reversed', (seq,))
    write_ref(ev, st, info, r0, out)
    return [(st, T.UNIT)]


@ax('core::slice::<impl [T]>::split_at_mut', note='split_at_mut(mid) panics unless mid <= len; the two halves are disjoint views of the same storage')
def a_split_at_mut(ev, st, info, args):
    r0 = args[0]
    if r0[0] != 'ref':
        return [(st, ('opaque', 'split_at_mut on untracked storage'))]
    seq = content(ev.deref(r0, st))
    n = T.mk_len(seq)
    if not oblige(st, info, 'slice_end', T.cmp('Le', args[1], n), 'mid <= len'):
        return []
    return [(st, ('tuple', (sub_ref(r0, ('r', I(0), args[1])), sub_ref(r0, ('r', args[1], n)))))]


@ax('core::slice::<impl [T]>::get', 'core::str::<impl str>::get',
    note='get(range) is Some(sub-slice) iff the range is in bounds (and on char boundaries for str), else None; total')
def a_get(ev, st, info, args):
    seq = content(args[0])
    n = T.mk_len(seq)
    is_str = 'str' in info['c']['path']
    rng = args[1]
    if rng[0] != 'adt':
        if T.is_numeric(rng):
            outs = []
            for s2, val in fork_bool(st, T.cmp('Lt', rng, n)):
                outs.append((s2, some(T.mk_at(seq, rng)) if val else NONE))
            return outs
        return [(st, ('opaque', 'get with unknown index type'))]
    b = range_bounds(rng, n)
    if b is None:
        return [(st, ('opaque', 'get with unknown range type'))]
    lo, hi = b
    cond = T.band_bool(T.cmp('Le', lo, hi), T.cmp('Le', hi, n))
    if is_str and not (seq[0] == 'bytes' and all(b < 128 for b in seq[1])):      # every in-range index of an ASCII constant is a char boundary
        for idx in (lo, hi):
            if idx != I(0) and idx != n:
                cond = T.band_bool(cond, ('call', 'is_char_boundary', (seq, idx)))
    outs = []
    for s2, val in fork_bool(st, cond):
        outs.append((s2, some(T.mk_slice(seq, lo, hi)) if val else NONE))
    return outs


@ax('core::slice::<impl [T]>::first', note='first() is Some(s[0]) iff non-empty; total')
def a_first(ev, st, info, args):
    seq = content(args[0])
    outs = []
    for s2, val in fork_bool(st, T.cmp('Gt', T.mk_len(seq), I(0))):
        outs.append((s2, some(T.mk_at(seq, I(0))) if val else NONE))
    return outs


def _const_arg(info, i):
    a = info.get('rargs') or info.get('targs') or []
    if i < len(a):
        t = a[i]
        name = t[1] if t[0] == 'path' else None
        if name is not None and name.isdigit():
            return int(name)
    return None


@ax('core::slice::<impl [T]>::split_first_chunk', note='split_first_chunk::<N>: Some((first N, rest)) iff len >= N; total')
def a_split_first_chunk(ev, st, info, args):
    seq = content(args[0])
    n = _const_arg(info, 1)
    if n is None:
        return [(st, ('opaque', 'split_first_chunk with unknown N'))]
    outs = []
    for s2, val in fork_bool(st, T.cmp('Ge', T.mk_len(seq), I(n))):
        outs.append((s2, some(('tuple', (T.mk_slice(seq, I(0), I(n)), T.mk_slice(seq, I(n), T.mk_len(seq))))) if val else NONE))
    return outs


@ax('core::slice::<impl [T]>::first_chunk', note='first_chunk::<N>: Some(first N) iff len >= N; total')
def a_first_chunk(ev, st, info, args):
    seq = content(args[0])
    n = _const_arg(info, 1)
    if n is None:
        return [(st, ('opaque', 'first_chunk with unknown N'))]
    outs = []
    for s2, val in fork_bool(st, T.cmp('Ge', T.mk_len(seq), I(n))):
        outs.append((s2, some(T.mk_slice(seq, I(0), I(n))) if val else NONE))
    return outs


@ax('core::slice::<impl [T]>::split_first', note='split_first: Some((first, rest)) iff non-empty; total')
def a_split_first(ev, st, info, args):
    seq = content(args[0])
    outs = []
    for s2, val in fork_bool(st, T.cmp('Ge', T.mk_len(seq), I(1))):
        outs.append((s2, some(('tuple', (T.mk_at(seq, I(0)), T.mk_slice(seq, I(1), T.mk_len(seq))))) if val else NONE))
    return outs


@ax('core::slice::<impl [T]>::last', note='last(): Some(s[len-1]) iff non-empty; total')
def a_last(ev, st, info, args):
    seq = content(args[0])
    outs = []
    for s2, val in fork_bool(st, T.cmp('Ge', T.mk_len(seq), I(1))):
        outs.append((s2, some(T.mk_at(seq, T.sub(T.mk_len(seq), I(1)))) if val else NONE))
    return outs


@ax('<T as std::convert::TryInto<U>>::try_into', 'std::convert::TryInto::try_into', note='TryInto is TryFrom of the target type')
def a_try_into(ev, st, info, args):
    ra = info.get('rargs') or info.get('targs') or []
    if len(ra) >= 2:
        src, dst = ra[0], ra[1]
        d = tys.strip_refs(dst)
        if d[0] == 'array' and d[2].isdigit():
            # &[T] -> [T; N] / &[T; N]: Ok(the same elements) iff len == N
            seq = content(args[0])
            n = int(d[2])
            outs = []
            for s2, val in fork_bool(st, T.eq0(T.sub(T.mk_len(seq), I(n)))):
                outs.append((s2, ok(T.mk_slice(seq, I(0), I(n))) if val else err(('call', 'try_from_slice_error', ()))))
            return outs
        s_, d_ = tys.show(src), tys.show(dst)
        if s_ in solver.INT_RANGES and d_ in solver.INT_RANGES:
            return try_from_int(ev, st, info, args, d_)
    return [(st, ('opaque', 'try_into between unknown types'))]


@ax('core::slice::<impl [T]>::split_at', 'core::str::<impl str>::split_at', note='split_at(mid) panics unless mid <= len')
def a_split_at(ev, st, info, args):
    seq = content(args[0])
    n = T.mk_len(seq)
    if not oblige(st, info, 'slice_end', T.cmp('Le', args[1], n), 'mid <= len'):
        return []
    if 'str' in info['c']['path']:
        ob = {'kind': 'char_boundary', 'site': info['site']['span'], 'fn': info['site']['fn'],
              'cond': ('call', 'is_char_boundary', (seq, args[1])), 'pc': list(st.pc), 'detail': 'mid', 'exp': False}
        st.obls.append(ob)
        if CURRENT_EV is not None:
            CURRENT_EV.all_obls.append(ob)
    return [(st, ('tuple', (T.mk_slice(seq, I(0), args[1]), T.mk_slice(seq, args[1], n))))]


@ax('core::slice::<impl [T]>::copy_from_slice', note='copy_from_slice panics unless lengths are equal; dst := src')
def a_copy_from_slice(ev, st, info, args):
    dst, src = args[0], content(args[1])
    if dst[0] != 'ref':
        return [(st, ('opaque', 'copy_from_slice into untracked storage'))]
    cur = ev.deref(dst, st)
    if not oblige(st, info, 'len_eq', T.eq0(T.sub(T.mk_len(cur), T.mk_len(src))), 'dst.len() == src.len()'):
        return []
    write_ref(ev, st, info, dst, src)
    return [(st, T.UNIT)]


def pat_bytes(p):
    """pattern argument (char or &str / &[u8]) -> byte-sequence term"""
    if p[0] == 'int':
        try:
            return ('bytes', chr(p[1]).encode('utf-8'))
        except (ValueError, OverflowError):
            return ('opaque', 'char pattern')
    return content(p)


def pred_seq(name, a, b):
    if a[0] == 'bytes' and b[0] == 'bytes':
        r = a[1].startswith(b[1]) if name == 'starts_with' else a[1].endswith(b[1])
        return T.TRUE if r else T.FALSE
    if b[0] == 'bytes' and len(b[1]) == 0:
        return T.TRUE
    if b[0] == 'bytes':
        # a sequence with a constant head (tail) at least as long as b decides the predicate
        ca = T.canon_seq(a)
        parts = list(ca[1]) if ca[0] == 'concat' else [ca]
        const = b''
        for p_ in (parts if name == 'starts_with' else reversed(parts)):
            if p_[0] != 'bytes':
                break
            const = const + p_[1] if name == 'starts_with' else p_[1] + const
        if len(const) >= len(b[1]):
            r = const.startswith(b[1]) if name == 'starts_with' else const.endswith(b[1])
            return T.TRUE if r else T.FALSE
    return ('call', name, (a, b))


@ax('core::slice::<impl [T]>::starts_with', 'core::str::<impl str>::starts_with',
    note='a.starts_with(b) <=> len(a) >= len(b) and a[..len(b)] == b; total')
def a_starts_with(ev, st, info, args):
    a, b = content(args[0]), pat_bytes(args[1])
    nb = T.mk_len(b)
    # when a is known to be at least as long as a constant-length b this is equality with the prefix
    if nb[0] == 'int' and a[0] != 'bytes' and solver.entails(st.pc, T.cmp('Ge', T.mk_len(a), nb)):
        return [(st, T.eq(T.mk_slice(a, I(0), nb), b))]
    return [(st, pred_seq('starts_with', a, b))]


@ax('core::slice::<impl [T]>::ends_with', 'core::str::<impl str>::ends_with',
    note='a.ends_with(b) <=> len(a) >= len(b) and a[len(a)-len(b)..] == b; total')
def a_ends_with(ev, st, info, args):
    return [(st, pred_seq('ends_with', content(args[0]), pat_bytes(args[1])))]


@ax('core::str::<impl str>::strip_prefix', 'core::slice::<impl [T]>::strip_prefix', note='strip_prefix: Some(rest) iff starts_with; total')
def a_strip_prefix(ev, st, info, args):
    a, b = content(args[0]), pat_bytes(args[1])
    outs = []
    for s2, val in fork_bool(st, pred_seq('starts_with', a, b)):
        outs.append((s2, some(T.mk_slice(a, T.mk_len(b), T.mk_len(a))) if val else NONE))
    return outs


@ax('core::str::<impl str>::strip_suffix', 'core::slice::<impl [T]>::strip_suffix', note='strip_suffix: Some(rest) iff ends_with; total')
def a_strip_suffix(ev, st, info, args):
    a, b = content(args[0]), pat_bytes(args[1])
    outs = []
    for s2, val in fork_bool(st, pred_seq('ends_with', a, b)):
        outs.append((s2, some(T.mk_slice(a, I(0), T.sub(T.mk_len(a), T.mk_len(b)))) if val else NONE))
    return outs


@ax('core::str::traits::<impl std::cmp::PartialEq for str>::eq', 'std::cmp::impls::<impl std::cmp::PartialEq<&B> for &A>::eq',
    'core::slice::cmp::<impl std::cmp::PartialEq<[U]> for [T]>::eq', 'core::array::equality::<impl std::cmp::PartialEq<[U; N]> for [T; N]>::eq',
    note='== on str / slices / references compares contents; total')
def a_eq(ev, st, info, args):
    return [(st, T.eq(content(args[0]), content(args[1])))]


@ax('core::str::traits::<impl std::cmp::PartialEq for str>::ne', 'std::cmp::impls::<impl std::cmp::PartialEq<&B> for &A>::ne',
    'core::slice::cmp::<impl std::cmp::PartialEq<[U]> for [T]>::ne',
    note='!= on str / slices / references compares contents; total')
def a_ne(ev, st, info, args):
    return [(st, T.bnot(T.eq(content(args[0]), content(args[1]))))]


@ax('<std::option::Option<T> as std::cmp::PartialEq>::eq', '<std::result::Result<T, E> as std::cmp::PartialEq>::eq',
    note='== on Option / Result compares variants and payloads (payload == by contents for str / slices / integers); total')
def a_enum_eq(ev, st, info, args):
    a, b = (ev.deref(x, st) if x[0] == 'ref' else x for x in args[:2])
    if a[0] == 'adt' and b[0] == 'adt':
        if a[2] != b[2]:
            return [(st, T.FALSE)]
        r = T.TRUE
        for x, y in zip(a[4], b[4]):
            r = T.band_bool(r, T.eq(content(x), content(y)))
        return [(st, r)]
    return [(st, ('opaque', 'comparison of symbolic Option / Result values'))]


@ax('std::cmp::PartialEq::ne', note='the provided != of slices / str / arrays is the negation of their ==; total')
def a_ne_default(ev, st, info, args):
    t = ty_arg(info, 0, 'targs')
    t = tys.strip_refs(t) if t is not None else None
    if t is not None and (t[0] in ('slice', 'array') or t == ('path', 'str', ())):
        return a_ne(ev, st, info, args)
    return [(st, ('opaque', 'provided PartialEq::ne of %s' % (tys.show(t) if t else '?')))]


@ax('std::array::<impl [T; N]>::as_slice', '<[T] as std::convert::AsRef<[T]>>::as_ref', 'core::str::<impl str>::as_bytes',
    'std::vec::Vec::<T, A>::as_slice', '<std::vec::Vec<T, A> as std::ops::Deref>::deref', 'std::string::String::as_str',
    '<str as std::convert::AsRef<str>>::as_ref', '<std::string::String as std::ops::Deref>::deref',
    '<str as std::convert::AsRef<[u8]>>::as_ref', '<std::vec::Vec<T, A> as std::convert::AsRef<[T]>>::as_ref',
    note='views of the same bytes; total')
def a_identity_view(ev, st, info, args):
    return [(st, content(args[0]))]


@ax("<std::borrow::Cow<'_, B> as std::ops::Deref>::deref", "<std::borrow::Cow<'_, T> as std::convert::AsRef<T>>::as_ref",
    '<std::borrow::Cow<B> as std::ops::Deref>::deref', '<std::borrow::Cow<T> as std::convert::AsRef<T>>::as_ref',
    note='Cow deref / as_ref give the contained bytes (borrowed or owned); total')
def a_cow_deref(ev, st, info, args):
    return [(st, content(args[0]))]


@ax('std::slice::<impl [T]>::to_vec', '<T as std::string::ToString>::to_string', 'std::borrow::ToOwned::to_owned',
    '<str as std::borrow::ToOwned>::to_owned', '<[T] as std::borrow::ToOwned>::to_owned', 'std::borrow::Cow::<B>::into_owned',
    "std::borrow::Cow::<'_, B>::into_owned", '<std::string::String as std::convert::From<&str>>::from',
    'std::str::<impl std::borrow::ToOwned for str>::to_owned', 'std::slice::<impl std::borrow::ToOwned for [T]>::to_owned',
    'std::string::<impl std::convert::From<&str> for std::string::String>::from', '<std::string::String as std::clone::Clone>::clone',
    '<std::vec::Vec<T, A> as std::clone::Clone>::clone', '<std::vec::Vec<T> as std::clone::Clone>::clone', 'std::string::String::into_bytes',
    'core::str::<impl str>::to_string', 'std::string::<impl std::string::ToString for str>::to_string',
    '<std::vec::Vec<T> as std::convert::From<&[T]>>::from', 'std::vec::<impl std::convert::From<&[T]> for std::vec::Vec<T>>::from',
    note='to_vec / to_string / to_owned copy the contents unchanged; total')
def a_to_owned(ev, st, info, args):
    return [(st, content(args[0]))]


@ax('std::str::from_utf8', 'core::str::from_utf8', note='from_utf8(b) is Ok(the same bytes) iff b is valid UTF-8, else Err; total')
def a_from_utf8(ev, st, info, args):
    seq = content(args[0])
    outs = []
    for s2, val in fork_bool(st, ('call', 'is_utf8', (seq,))):
        outs.append((s2, ok(seq) if val else err(('call', 'utf8_error', (seq,)))))
    return outs


@ax('core::str::<impl str>::is_char_boundary', note='is_char_boundary; total')
def a_is_char_boundary(ev, st, info, args):
    seq = content(args[0])
    if args[1] == I(0) or args[1] == T.mk_len(seq):
        return [(st, T.TRUE)]
    return [(st, ('call', 'is_char_boundary', (seq, args[1])))]


@ax('std::char::methods::<impl char>::len_utf8', note='len_utf8 of a constant char')
def a_len_utf8(ev, st, info, args):
    c = args[0]
    if c[0] == 'int':
        return [(st, I(len(chr(c[1]).encode('utf-8'))))]
    return [(st, ('call', 'len_utf8', (c,)))]


def find_first(st, seq, byte):
    outs = []
    idx = ('call', 'first_byte', (seq, byte))
    for s2, val in fork_bool(st, ('call', 'has_byte', (seq, byte))):
        outs.append((s2, some(idx) if val else NONE))
    return outs


@ax('core::str::<impl str>::find', note='find(ASCII char) is the byte index of its first occurrence (a char boundary), None if absent; total')
def a_find(ev, st, info, args):
    seq, p = content(args[0]), args[1]
    if p[0] == 'int' and 0 <= p[1] < 128:
        return find_first(st, seq, p)
    return [(st, ('opaque', 'str::find with non-ASCII-char pattern'))]


@ax('core::str::<impl str>::split_once', note='split_once(ASCII char) splits at its first occurrence: Some((before, after)), None if absent; total')
def a_split_once(ev, st, info, args):
    seq, p = content(args[0]), args[1]
    if not (p[0] == 'int' and 0 <= p[1] < 128):
        return [(st, ('opaque', 'str::split_once with non-ASCII-char pattern'))]
    outs = []
    idx = ('call', 'first_byte', (seq, p))
    for s2, val in fork_bool(st, ('call', 'has_byte', (seq, p))):
        if val:
            outs.append((s2, some(('tuple', (T.mk_slice(seq, I(0), idx), T.mk_slice(seq, T.add(idx, I(1)), T.mk_len(seq)))))))
        else:
            outs.append((s2, NONE))
    return outs


@ax('core::slice::<impl [T]>::iter', 'core::str::<impl str>::bytes', note='iter() / bytes() visit the elements (bytes) in order')
def a_iter(ev, st, info, args):
    return [(st, T.mk_adt('$SliceIter', 'I', [('seq', content(args[0]))]))]


@ax("<std::slice::Iter<'a, T> as std::iter::Iterator>::position", '<std::slice::Iter<T> as std::iter::Iterator>::position',
    "<std::str::Bytes<'_> as std::iter::Iterator>::position", '<std::str::Bytes as std::iter::Iterator>::position', 'std::iter::Iterator::position',
    note='position(p) is the index of the first element satisfying p, None if none does; total if p is')
def a_position(ev, st, info, args):
    it = ev.deref(args[0], st)
    if it[0] != 'adt' or it[1] != '$SliceIter':
        return [(st, ('opaque', 'position on unknown iterator'))]
    seq = T.adt_field(it, 'seq')
    e = ('call', 'elem', (seq,))
    T.TYPES[e] = 'u8'
    T.NUMERIC[e] = True
    cond = ev.closure_bool(args[1], [e], st, info['fr'], info['site'])
    s2 = st
    # recognise  e == c
    if cond[0] == 'eq0':
        c0, m = T.to_lin(cond[1])
        if set(m) == {e} and abs(m[e]) == 1:
            c = -c0 * m[e]
            return find_first(s2, seq, I(c))
    return [(s2, ('opaque', 'position with unrecognised predicate %s' % T.short(cond)))]


# ------------------------------------------------------------------------------------------
# tokenising

def sep_set(ev, st, info, pat):
    """separator pattern -> sorted tuple of separator code points, or None"""
    if pat[0] == 'int':
        return (pat[1],)
    if pat[0] == 'ref':
        pat = ev.deref(pat, st)
    if pat[0] == 'arr' and pat[1] and all(x[0] == 'int' for x in pat[1]):
        return tuple(sorted({x[1] for x in pat[1]}))        # [char; N] / &[char]: any of the listed chars
    if pat[0] == 'bytes' and 'char' in str(ty_arg(info, 0) or ''):
        return tuple(sorted(set(pat[1])))
    if pat[0] in ('closure', 'fn'):
        c = ('call', 'anychar', ())
        T.TYPES[c] = 'char'
        T.NUMERIC[c] = True
        cond = ev.closure_bool(pat, [c], st, info['fr'], info['site'])
        if T.has_opaque(cond):
            return None
        # candidate separators: every constant the predicate compares the char with
        cands = set()
        for t in T.subterms(cond):
            if t[0] == 'eq0':
                c0, m = T.to_lin(t[1])
                if set(m) == {c} and abs(m[c]) == 1:
                    cands.add(-c0 * m[c])
        out = []
        others = []
        for k in sorted(cands):
            eqk = T.eq0(T.sub(c, I(k)))
            if solver.entails([eqk], cond):
                out.append(k)
            elif not solver.entails([eqk], T.bnot(cond)):
                return None
            others.append(T.bnot(eqk))
        if not solver.entails(others, T.bnot(cond)):
            return None
        return tuple(out)
    return None


def split_value(text, limit, seps):
    src = ('call', 'split', (text, limit, ('bytes', bytes(seps)) if all(0 <= s < 256 for s in seps) else ('opaque', 'seps')))
    return T.mk_adt('$Split', 'S', [('src', src), ('pos', I(0))])


@ax('core::str::<impl str>::splitn', note='splitn(n, p): consecutive substrings separated by single chars satisfying p, at most n tokens')
def a_splitn(ev, st, info, args):
    seps = sep_set(ev, st, info, args[2])
    if seps is None:
        return [(st, ('opaque', 'splitn with unrecognised separator predicate'))]
    return [(st, split_value(content(args[0]), args[1], seps))]


@ax('core::str::<impl str>::split', note='split(p): consecutive substrings separated by single chars satisfying p')
def a_split(ev, st, info, args):
    seps = sep_set(ev, st, info, args[1])
    if seps is None:
        return [(st, ('opaque', 'split with unrecognised separator predicate'))]
    return [(st, split_value(content(args[0]), I(1 << 62), seps))]


@ax('std::iter::Iterator::peekable', note='peekable() does not change the item sequence')
def a_peekable(ev, st, info, args):
    return [(st, args[0])]


def tok(src, k):
    return ('call', 'tok', (src, k))


def has_tok(src, k):
    if k == I(0):
        return T.TRUE       # split always yields a first token
    limit = src[2][1]
    if k[0] == 'int' and limit[0] == 'int' and k[1] >= limit[1]:
        return T.FALSE      # splitn(n, ..) yields at most n tokens
    return ('call', 'has_tok', (src, k))


def split_state(ev, st, r):
    it = ev.deref(r, st)
    if it[0] == 'adt' and it[1] == '$Split':
        return T.adt_field(it, 'src'), T.adt_field(it, 'pos')
    return None, None


def set_pos(ev, st, info, r, src, pos):
    write_ref(ev, st, info, r, T.mk_adt('$Split', 'S', [('src', src), ('pos', pos)]))


@ax('<std::iter::Peekable<I> as std::iter::Iterator>::next', "<std::str::SplitN<'a, P> as std::iter::Iterator>::next",
    "<std::str::Split<'a, P> as std::iter::Iterator>::next", '<std::str::SplitN<P> as std::iter::Iterator>::next',
    '<std::str::Split<P> as std::iter::Iterator>::next',
    note='next() yields the next token and advances; None when exhausted (iterators over a finite string are finite)')
def a_split_next(ev, st, info, args):
    src, pos = split_state(ev, st, args[0])
    if src is None:
        return generic_iter_next(ev, st, info, args)
    outs = []
    for s2, val in fork_bool(st, has_tok(src, pos)):
        if val:
            set_pos(ev, s2, info, args[0], src, T.add(pos, I(1)))
            outs.append((s2, some(tok(src, pos))))
        else:
            outs.append((s2, NONE))
    return outs


@ax('std::iter::Peekable::<I>::peek', note='peek() shows the next item without advancing')
def a_peek(ev, st, info, args):
    src, pos = split_state(ev, st, args[0])
    if src is None:
        return [(st, ('opaque', 'peek on unknown iterator'))]
    outs = []
    for s2, val in fork_bool(st, has_tok(src, pos)):
        outs.append((s2, some(tok(src, pos)) if val else NONE))
    return outs


@ax('std::iter::Peekable::<I>::next_if', note='next_if(p) advances and yields the next item iff it exists and satisfies p')
def a_next_if(ev, st, info, args):
    src, pos = split_state(ev, st, args[0])
    if src is None:
        return [(st, ('opaque', 'next_if on unknown iterator'))]
    outs = []
    for s2, val in fork_bool(st, has_tok(src, pos)):
        if not val:
            outs.append((s2, NONE))
            continue
        for s3, cond in ev.apply_closure(args[1], [tok(src, pos)], s2, info['fr'], info['site']):
            for s4, v in fork_bool(s3, cond):
                if v:
                    set_pos(ev, s4, info, args[0], src, T.add(pos, I(1)))
                    outs.append((s4, some(tok(src, pos))))
                else:
                    outs.append((s4, NONE))
    return outs


@ax('std::iter::Iterator::find', "<std::slice::Iter<'a, T> as std::iter::Iterator>::find", '<std::slice::Iter<T> as std::iter::Iterator>::find', note='find(p) consumes items up to and including the first one satisfying p (Some(item)), or all of them (None)')
def a_find_item(ev, st, info, args):
    it = ev.deref(args[0], st)
    if not is_iter(it):
        return [(st, ('opaque', 'find on an unknown iterator'))]
    outs = []
    work = [(st, it, 0)]
    while work:
        s1, cur, n = work.pop()
        if n > 64:
            return [(st, ('opaque', 'find over an iterator without a small constant bound'))]
        for s2, nxt, item in iter_step(ev, s1, cur):
            if item is None:
                s2 = s2.copy() if s2 is s1 else s2
                write_ref(ev, s2, info, args[0], nxt)
                outs.append((s2, NONE))
                continue
            # the predicate receives a reference to the item
            for s3, cond in ev.apply_closure(args[1], [item], s2, info['fr'], info['site']):
                for s4, v in fork_bool(s3, cond):
                    if v:
                        s4 = s4.copy() if s4 is s1 else s4
                        write_ref(ev, s4, info, args[0], nxt)
                        outs.append((s4, some(item)))
                    else:
                        work.append((s4, nxt, n + 1))
    return outs


@ax('std::iter::Iterator::all', "<std::slice::Iter<'a, T> as std::iter::Iterator>::all", '<std::slice::Iter<T> as std::iter::Iterator>::all', note='all(p) consumes items up to and including the first one failing p (false), or all of them (true)')
def a_all(ev, st, info, args):
    it = ev.deref(args[0], st)
    if not is_iter(it) or iter_bound(it) is None:
        return [(st, ('opaque', 'all on an iterator without a small constant bound'))]
    outs = []
    work = [(st, it)]
    while work:
        s1, cur = work.pop()
        for s2, nxt, item in iter_step(ev, s1, cur):
            if item is None:
                s2 = s2.copy() if s2 is s1 else s2
                write_ref(ev, s2, info, args[0], nxt)
                outs.append((s2, T.TRUE))
                continue
            for s3, cond in ev.apply_closure(args[1], [item], s2, info['fr'], info['site']):
                for s4, v in fork_bool(s3, cond):
                    if v:
                        work.append((s4, nxt))
                    else:
                        s4 = s4.copy() if s4 is s1 else s4
                        write_ref(ev, s4, info, args[0], nxt)
                        outs.append((s4, T.FALSE))
    return outs


@ax('std::iter::Iterator::any', '<std::iter::Peekable<I> as std::iter::Iterator>::any', "<std::slice::Iter<'a, T> as std::iter::Iterator>::any", '<std::slice::Iter<T> as std::iter::Iterator>::any',
    note='any(p) consumes items up to and including the first one satisfying p (true), or all of them (false); over a splitn(n) tokeniser at most n items')
def a_any(ev, st, info, args):
    src, pos = split_state(ev, st, args[0])
    if src is None:
        it = ev.deref(args[0], st)
        if is_iter(it) and iter_bound(it) is not None:
            # any(p) over an array / slice iterator of known length: item by item
            outs = []
            work = [(st, it)]
            while work:
                s1, cur = work.pop()
                for s2, nxt, item in iter_step(ev, s1, cur):
                    if item is None:
                        s2 = s2.copy() if s2 is s1 else s2
                        write_ref(ev, s2, info, args[0], nxt)
                        outs.append((s2, T.FALSE))
                        continue
                    for s3, cond in ev.apply_closure(args[1], [item], s2, info['fr'], info['site']):
                        for s4, v in fork_bool(s3, cond):
                            if v:
                                s4 = s4.copy() if s4 is s1 else s4
                                write_ref(ev, s4, info, args[0], nxt)
                                outs.append((s4, T.TRUE))
                            else:
                                work.append((s4, nxt))
            return outs
    if src is None or pos[0] != 'int' or src[2][1][0] != 'int':
        return [(st, ('opaque', 'any on an unknown iterator'))]
    limit = src[2][1][1]
    outs = []
    work = [(st, pos[1])]
    while work:
        s1, k = work.pop()
        for s2, present in fork_bool(s1, has_tok(src, I(k))):
            if not present:
                set_pos(ev, s2, info, args[0], src, I(k))
                outs.append((s2, T.FALSE))
                continue
            for s3, cond in ev.apply_closure(args[1], [tok(src, I(k))], s2, info['fr'], info['site']):
                for s4, v in fork_bool(s3, cond):
                    if v:
                        set_pos(ev, s4, info, args[0], src, I(k + 1))
                        outs.append((s4, T.TRUE))
                    elif k + 1 >= limit:
                        set_pos(ev, s4, info, args[0], src, I(k + 1))
                        outs.append((s4, T.FALSE))
                    else:
                        work.append((s4, k + 1))
    return outs


def generic_iter_next(ev, st, info, args):
    r = args[0]
    it = ev.deref(r, st)
    if is_iter(it):
        return a_seq_next(ev, st, info, args)       # a caller-supplied iterator that is known on this path (e.g. iter::once(x))
    outs = []
    for s2, val in fork_bool(st, ('call', 'iter_has_next', (it,))):
        if val:
            write_ref(ev, s2, info, r, ('call', 'iter_advance', (it,)))
            outs.append((s2, some(('call', 'iter_item', (it,)))))
        else:
            outs.append((s2, NONE))
    return outs


# ------------------------------------------------------------------------------------------
# iterator algebra over arrays and slices (std::array::IntoIter, slice::Iter / IterMut, Zip, Enumerate, Copied / Cloned)
# iterator values are $-prefixed pseudo ADTs; iter_step advances one by value

ITER_ADTS = ('$ArrIter', '$SliceIter', '$IterMut', '$Zip', '$Enumerate', '$Copied', '$Split')


def is_iter(v):
    return v[0] == 'adt' and v[1] in ITER_ADTS


def slice_iter(seq):
    return T.mk_adt('$SliceIter', 'I', [('seq', seq)])


def as_iter(ev, st, v, ty=None):
    """IntoIterator::into_iter of a value: known iterators are themselves, arrays and slices iterate their elements"""
    if is_iter(v):
        return v
    if v[0] == 'ref':
        v = ev.deref(v, st)
    v = content(v)
    if v[0] in T.SEQ_TAGS:
        return slice_iter(v)
    if ty is not None and v[0] != 'opaque':
        t = tys.strip_refs(ty)
        if t[0] in ('slice', 'array'):
            return slice_iter(v)        # a symbolic sequence (e.g. the octets of an address) of slice / array type
    return None


def iter_bound(it):
    """constant upper bound on the number of items an iterator value can still yield, or None"""
    k = it[1]
    if k == '$ArrIter':
        return len(T.adt_field(it, 'elems')[1])
    if k == '$SliceIter':
        n = T.mk_len(T.adt_field(it, 'seq'))
        return n[1] if n[0] == 'int' and n[1] <= 256 else None
    if k == '$IterMut':
        return T.adt_field(it, 'n')[1]
    if k == '$Split':
        lim = T.adt_field(it, 'src')[2][1]
        return lim[1] if lim[0] == 'int' else None
    if k == '$Zip':
        a, b = iter_bound(T.adt_field(it, 'a')), iter_bound(T.adt_field(it, 'b'))
        return min(x for x in (a, b) if x is not None) if (a is not None or b is not None) else None
    if k in ('$Enumerate', '$Copied'):
        return iter_bound(T.adt_field(it, 'it'))
    return None


def iter_step(ev, st, it):
    """-> [(state, iterator after the step, item or None)]"""
    k = it[1]
    if k == '$ArrIter':
        el, pos = T.adt_field(it, 'elems'), T.adt_field(it, 'pos')
        ev.unroll_hint(len(el[1]))
        if pos[1] >= len(el[1]):
            return [(st, it, None)]
        return [(st, T.adt_with(it, 'pos', I(pos[1] + 1)), el[1][pos[1]])]
    if k == '$Split':
        src, pos = T.adt_field(it, 'src'), T.adt_field(it, 'pos')
        if src[2][1][0] == 'int':
            ev.unroll_hint(src[2][1][1])        # splitn(n, ..) yields at most n tokens
        outs = []
        for s2, val in fork_bool(st, has_tok(src, pos)):
            if val:
                outs.append((s2, T.adt_with(it, 'pos', T.add(pos, I(1))), tok(src, pos)))
            else:
                outs.append((s2, it, None))
        return outs
    if k == '$SliceIter':
        seq = T.adt_field(it, 'seq')
        n = T.mk_len(seq)
        if n[0] == 'int':
            ev.unroll_hint(n[1])
        outs = []
        for s2, val in fork_bool(st, T.ge0(T.sub(n, I(1)))):
            if val:
                outs.append((s2, slice_iter(T.mk_slice(seq, I(1), n)), T.mk_at(seq, I(0))))
            else:
                outs.append((s2, it, None))
        return outs
    if k == '$IterMut':
        base, pos, n = T.adt_field(it, 'base'), T.adt_field(it, 'pos'), T.adt_field(it, 'n')
        ev.unroll_hint(n[1])
        if pos[1] >= n[1]:
            return [(st, it, None)]
        return [(st, T.adt_with(it, 'pos', I(pos[1] + 1)), ('ref', base[1], tuple(base[2]) + (('i', pos),)))]
    if k == '$Zip':
        a, b = T.adt_field(it, 'a'), T.adt_field(it, 'b')
        outs = []
        for s2, a2, ia in iter_step(ev, st, a):
            if ia is None:
                outs.append((s2, T.adt_with(it, 'a', a2), None))
                continue
            for s3, b2, ib in iter_step(ev, s2, b):
                it2 = T.adt_with(T.adt_with(it, 'a', a2), 'b', b2)
                outs.append((s3, it2, None if ib is None else ('tuple', (ia, ib))))
        return outs
    if k == '$Enumerate':
        inner, idx = T.adt_field(it, 'it'), T.adt_field(it, 'idx')
        outs = []
        for s2, i2, item in iter_step(ev, st, inner):
            if item is None:
                outs.append((s2, T.adt_with(it, 'it', i2), None))
            else:
                outs.append((s2, T.adt_with(T.adt_with(it, 'it', i2), 'idx', T.add(idx, I(1))), ('tuple', (idx, item))))
        return outs
    if k == '$Copied':
        inner = T.adt_field(it, 'it')
        outs = []
        for s2, i2, item in iter_step(ev, st, inner):
            if item is not None and item[0] == 'ref':
                item = ev.deref(item, s2)
            outs.append((s2, T.adt_with(it, 'it', i2), item))
        return outs
    raise KeyError(k)


@ax('std::iter::once', note='once(x) yields x once')
def a_once(ev, st, info, args):
    return [(st, T.mk_adt('$ArrIter', 'I', [('elems', ('arr', (args[0],))), ('pos', I(0))]))]


@ax('<std::array::IntoIter<T, N> as std::iter::Iterator>::next', '<std::iter::Zip<A, B> as std::iter::Iterator>::next', '<std::iter::Once<T> as std::iter::Iterator>::next',
    "<std::slice::Iter<'a, T> as std::iter::Iterator>::next", "<std::slice::IterMut<'a, T> as std::iter::Iterator>::next",
    '<std::slice::Iter<T> as std::iter::Iterator>::next', '<std::slice::IterMut<T> as std::iter::Iterator>::next',
    '<std::iter::Enumerate<I> as std::iter::Iterator>::next', '<std::iter::Copied<I> as std::iter::Iterator>::next',
    '<std::iter::Cloned<I> as std::iter::Iterator>::next',
    note='next() of an array / slice iterator (and of zip, enumerate, copied, cloned over them) yields the elements in index order, then None')
def a_seq_next(ev, st, info, args):
    it = ev.deref(args[0], st)
    if not is_iter(it):
        return generic_iter_next(ev, st, info, args)
    outs = []
    for s2, it2, item in iter_step(ev, st, it):
        if it2 != it:
            s2 = s2.copy() if s2 is st else s2
            write_ref(ev, s2, info, args[0], it2)
        outs.append((s2, NONE if item is None else some(item)))
    return outs


@ax('std::array::iter::<impl std::iter::IntoIterator for [T; N]>::into_iter', note='an array by value iterates its elements in index order')
def a_array_into_iter(ev, st, info, args):
    a = args[0]
    if a[0] == 'bytes':
        a = ('arr', tuple(I(b) for b in a[1]))
    if a[0] != 'arr':
        return [(st, ('call', 'into_iter', (a,)))]
    return [(st, T.mk_adt('$ArrIter', 'I', [('elems', a), ('pos', I(0))]))]


@ax('core::slice::<impl [T]>::iter_mut', note='iter_mut() yields a mutable reference to each element in index order')
def a_iter_mut(ev, st, info, args):
    r = args[0]
    if r[0] == 'ref':
        n = T.mk_len(ev.deref(r, st))
        if n[0] == 'int':
            return [(st, T.mk_adt('$IterMut', 'I', [('base', r), ('pos', I(0)), ('n', n)]))]
    return [(st, ('opaque', 'iter_mut over a sequence of unknown length'))]


@ax('std::iter::Iterator::zip', note='zip pairs the items of both iterators and ends with the shorter')
def a_zip(ev, st, info, args):
    a, b = as_iter(ev, st, args[0], ty_arg(info, 0)), as_iter(ev, st, args[1], ty_arg(info, 1))
    if a is None or b is None:
        return [(st, ('opaque', 'zip of unknown iterators'))]
    return [(st, T.mk_adt('$Zip', 'I', [('a', a), ('b', b)]))]


@ax('std::iter::Iterator::enumerate', note='enumerate pairs each item with its index from 0')
def a_enumerate(ev, st, info, args):
    a = as_iter(ev, st, args[0], ty_arg(info, 0))
    if a is None:
        return [(st, ('opaque', 'enumerate of unknown iterator'))]
    return [(st, T.mk_adt('$Enumerate', 'I', [('it', a), ('idx', I(0))]))]


@ax('std::iter::Iterator::copied', 'std::iter::Iterator::cloned', note='copied / cloned yield the referenced items by value')
def a_copied(ev, st, info, args):
    a = as_iter(ev, st, args[0], ty_arg(info, 0))
    if a is None:
        return [(st, ('opaque', 'copied of unknown iterator'))]
    return [(st, T.mk_adt('$Copied', 'I', [('it', a)]))]


AX['std::iter::Iterator::next'] = a_split_next
TOTAL_NOTE['std::iter::Iterator::next'] = 'a caller-supplied iterator yields items or None (uninterpreted)'


@ax('std::iter::IntoIterator::into_iter', '<I as std::iter::IntoIterator>::into_iter', note='into_iter of a caller-supplied collection (uninterpreted)')
def a_into_iter(ev, st, info, args):
    if is_iter(args[0]):
        return [(st, args[0])]          # impl<I: Iterator> IntoIterator for I is the identity
    return [(st, ('call', 'into_iter', (args[0],)))]


# ------------------------------------------------------------------------------------------
# parsing of text fields (leniencies stated in DESIGN.md 4.3)

@ax('core::str::<impl str>::parse', '<T as std::str::FromStr>::from_str', 'std::str::FromStr::from_str',
    note='str::parse::<T>() is T::from_str: Ok(value denoted by the text) or Err; total. u16::from_str accepts an optional leading +, '
         'leading zeros; Ipv4Addr::from_str is strict dotted quad; Ipv6Addr::from_str is RFC 4291 text')
def a_parse(ev, st, info, args):
    t = ty_arg(info, 0) if 'parse' in info['c']['path'] else info.get('self_ty')
    name = tys.show(t) if t is not None else '?'
    s = content(args[0])
    outs = []
    for s2, val in fork_bool(st, ('call', 'parses:' + name, (s,))):
        outs.append((s2, ok(('call', 'from_str:' + name, (s,))) if val else err(('call', 'parse_err:' + name, (s,)))))
    return outs


# ------------------------------------------------------------------------------------------
# integers

def num_method(ty, name):
    r = solver.INT_RANGES[ty]
    width = {'8': 1, '16': 2, '32': 4, '64': 8, '128': 16, 'size': 8}[re.sub(r'^[iu]', '', ty)]

    def seq_elems(v, n):
        v = content(v)
        if v[0] == 'arr' and len(v[1]) == n:
            return list(v[1])
        if v[0] == 'bytes' and len(v[1]) == n:
            return [I(b) for b in v[1]]
        return [T.mk_at(v, I(k)) for k in range(n)]

    if name in ('from_be_bytes', 'from_le_bytes'):
        def f(ev, st, info, args):
            es = seq_elems(args[0], width)
            v = T.mk_be(es) if name == 'from_be_bytes' else T.mk_le(es)
            v = ev.fold_bytes(v, st)
            if ty.startswith('i') and v[0] != 'int':
                v = ('call', 'signed:' + ty, (v,))
            return [(st, v)]
        return f
    if name in ('to_be_bytes', 'to_le_bytes'):
        def f(ev, st, info, args):
            return [(st, T.mk_tobytes('tobe' if name == 'to_be_bytes' else 'tole', width, args[0]))]
        return f
    if name in ('to_be', 'to_le'):
        def f(ev, st, info, args):
            v = ('call', name, (args[0],))      # an integer whose native representation is the big / little-endian encoding of the argument
            T.TYPES[v] = ty
            T.NUMERIC[v] = True
            return [(st, v)]
        return f
    if name == 'to_ne_bytes':
        def f(ev, st, info, args):
            a = args[0]
            if a[0] == 'call' and a[1] in ('to_be', 'to_le'):
                # x.to_be().to_ne_bytes() is x.to_be_bytes() on every target
                return [(st, T.mk_tobytes('tobe' if a[1] == 'to_be' else 'tole', width, a[2][0]))]
            return [(st, ('opaque', 'to_ne_bytes of a value in native order (platform dependent)'))]
        return f
    if name == 'from_ne_bytes':
        return None    # platform dependent: unknown on purpose
    if name in ('checked_add', 'checked_sub', 'checked_mul'):
        def f(ev, st, info, args):
            v = {'checked_add': T.add, 'checked_sub': T.sub, 'checked_mul': T.mul}[name](args[0], args[1])
            outs = []
            for s2, val in fork_bool(st, ev.int_range_cond(v, ty)):
                outs.append((s2, some(v) if val else NONE))
            return outs
        return f
    if name in ('saturating_sub', 'saturating_add'):
        def f(ev, st, info, args):
            v = T.add(args[0], args[1]) if name.endswith('add') else T.sub(args[0], args[1])
            outs = []
            for s2, val in fork_bool(st, ev.int_range_cond(v, ty)):
                if val:
                    outs.append((s2, v))
                elif r[0] == 0:
                    outs.append((s2, I(r[1] if name.endswith('add') else 0)))      # unsigned: saturates at the only reachable bound
                else:
                    outs.append((s2, ('call', name, (args[0], args[1]))))
            return outs
        return f
    if name in ('wrapping_add', 'wrapping_sub', 'wrapping_mul'):
        def f(ev, st, info, args):
            v = {'wrapping_add': T.add, 'wrapping_sub': T.sub, 'wrapping_mul': T.mul}[name](args[0], args[1])
            outs = []
            for s2, val in fork_bool(st, ev.int_range_cond(v, ty)):
                outs.append((s2, v if val else ('call', name, (args[0], args[1]))))
            return outs
        return f
    if name in ('min', 'max'):
        return a_min if name == 'min' else a_max
    return None


@ax('std::mem::size_of', 'core::mem::size_of', note='size_of of the primitive integer types')
def a_size_of(ev, st, info, args):
    t = ty_arg(info, 0)
    name = tys.show(t) if t is not None else '?'
    sizes = {'u8': 1, 'i8': 1, 'u16': 2, 'i16': 2, 'u32': 4, 'i32': 4, 'u64': 8, 'i64': 8, 'u128': 16, 'i128': 16, 'usize': 8, 'isize': 8, 'bool': 1, 'char': 4}
    if name in sizes:
        return [(st, I(sizes[name]))]
    return [(st, ('opaque', 'size_of::<%s>' % name))]


@ax('std::cmp::min', 'std::cmp::Ord::min', note='min of two integers; total')
def a_min(ev, st, info, args):
    outs = []
    for s2, val in fork_bool(st, T.cmp('Le', args[0], args[1])):
        outs.append((s2, args[0] if val else args[1]))
    return outs


@ax('std::cmp::max', 'std::cmp::Ord::max', note='max of two integers; total')
def a_max(ev, st, info, args):
    outs = []
    for s2, val in fork_bool(st, T.cmp('Ge', args[0], args[1])):
        outs.append((s2, args[0] if val else args[1]))
    return outs


def try_from_int(ev, st, info, args, dst):
    outs = []
    for s2, val in fork_bool(st, ev.int_range_cond(args[0], dst)):
        outs.append((s2, ok(args[0]) if val else err(('call', 'try_from_int_error', ()))))
    return outs


@ax('std::convert::num::ptr_try_from_impls::<impl std::convert::TryFrom<usize> for u16>::try_from',
    note='u16::try_from(usize) is Ok(same value) iff <= 65535; total')
def a_u16_try_from(ev, st, info, args):
    return try_from_int(ev, st, info, args, 'u16')


@ax('std::convert::num::ptr_try_from_impls::<impl std::convert::TryFrom<usize> for u8>::try_from', note='u8::try_from(usize)')
def a_u8_try_from(ev, st, info, args):
    return try_from_int(ev, st, info, args, 'u8')


# ------------------------------------------------------------------------------------------
# Option / Result

@ax('std::option::Option::<T>::ok_or', note='ok_or: Some(v) -> Ok(v), None -> Err(e); total')
def a_ok_or(ev, st, info, args):
    outs = []
    for s2, var, get in fork_enum(st, args[0], 'Option', ['Some', 'None']):
        outs.append((s2, ok(get('0')) if var == 'Some' else err(args[1])))
    return outs


@ax('std::option::Option::<T>::is_some', note='is_some; total')
def a_is_some(ev, st, info, args):
    v = args[0]
    if v[0] == 'adt':
        return [(st, T.TRUE if v[2] == 'Some' else T.FALSE)]
    return [(st, ('isvar', v, 'Some'))]


@ax('std::option::Option::<T>::is_none', note='is_none; total')
def a_is_none(ev, st, info, args):
    v = args[0]
    if v[0] == 'adt':
        return [(st, T.TRUE if v[2] == 'None' else T.FALSE)]
    return [(st, ('not', ('isvar', v, 'Some')))]


@ax('std::result::Result::<T, E>::is_err', note='is_err; total')
def a_is_err(ev, st, info, args):
    v = args[0]
    if v[0] == 'adt':
        return [(st, T.TRUE if v[2] == 'Err' else T.FALSE)]
    return [(st, ('not', ('isvar', v, 'Ok')))]


@ax('std::result::Result::<T, E>::is_ok', note='is_ok; total')
def a_is_ok(ev, st, info, args):
    v = args[0]
    if v[0] == 'adt':
        return [(st, T.TRUE if v[2] == 'Ok' else T.FALSE)]
    return [(st, ('isvar', v, 'Ok'))]


@ax('std::option::Option::<T>::filter', note='filter(p): Some(v) if p(&v) else None; total if p is')
def a_filter(ev, st, info, args):
    outs = []
    for s2, var, get in fork_enum(st, args[0], 'Option', ['Some', 'None']):
        if var == 'None':
            outs.append((s2, NONE))
            continue
        v = get('0')
        for s3, cond in ev.apply_closure(args[1], [v], s2, info['fr'], info['site']):
            for s4, b in fork_bool(s3, cond):
                outs.append((s4, some(v) if b else NONE))
    return outs


@ax('<std::vec::Vec<T, A> as std::ops::DerefMut>::deref_mut', 'std::vec::Vec::<T, A>::as_mut_slice', 'std::array::<impl [T; N]>::as_mut_slice',
    '<[T] as std::convert::AsMut<[T]>>::as_mut', '<std::vec::Vec<T, A> as std::convert::AsMut<[T]>>::as_mut',
    note='mutable view of the same storage; total')
def a_deref_mut(ev, st, info, args):
    return [(st, args[0])]


@ax('std::ops::Fn::call', 'std::ops::FnMut::call_mut', 'std::ops::FnOnce::call_once', note='calling a closure / fn item value applies its body')
def a_fn_call(ev, st, info, args):
    f = args[0]
    if f[0] == 'ref':
        f = ev.deref(f, st)
    tup = args[1] if len(args) > 1 else T.UNIT
    actual = list(tup[1]) if tup[0] == 'tuple' else [tup]
    if f[0] in ('fn', 'closure'):
        return ev.apply_closure(f, actual, st, info['fr'], info['site'])
    if getattr(ev, 'symbolic_fns', False) and f[0] == 'param':
        # a caller-supplied function value (the `f` of an overridden `fold`): its k-th application on this path is an uninterpreted term over the
        # function value and the arguments.  Only enabled by rules that compare summaries containing at most one application (C11.O).
        cnt = ('X', 'apply_count')
        k = st.store.get(cnt, T.I(0))
        st.store[cnt] = T.add(k, T.I(1))
        log = ('X', 'apply_log')
        st.store[log] = ('tuple', tuple(st.store.get(log, ('tuple', ()))[1]) + (('tuple', tuple([f] + actual)),))
        return [(st, ('call', 'apply#%d' % (k[1] if k[0] == 'int' else -1), tuple([f] + actual)))]
    return [(st, ('opaque', 'call of an unknown function value'))]


def _apply1(ev, st, info, f, x):
    return ev.apply_closure(f, [x], st, info['fr'], info['site'])


def _apply0(ev, st, info, f):
    return ev.apply_closure(f, [], st, info['fr'], info['site'])


@ax('std::option::Option::<T>::map_or', note='map_or(d, f): Some(v) -> f(v), None -> d; total if f is')
def a_opt_map_or(ev, st, info, args):
    outs = []
    for s2, var, get in fork_enum(st, args[0], 'Option', ['Some', 'None']):
        if var == 'None':
            outs.append((s2, args[1]))
        else:
            outs.extend(_apply1(ev, s2, info, args[2], get('0')))
    return outs


@ax('std::option::Option::<T>::map_or_else', note='map_or_else(d, f): Some(v) -> f(v), None -> d(); total if d, f are')
def a_opt_map_or_else(ev, st, info, args):
    outs = []
    for s2, var, get in fork_enum(st, args[0], 'Option', ['Some', 'None']):
        if var == 'None':
            outs.extend(_apply0(ev, s2, info, args[1]))
        else:
            outs.extend(_apply1(ev, s2, info, args[2], get('0')))
    return outs


@ax('std::option::Option::<T>::and_then', note='and_then(f) on Option; total if f is')
def a_opt_and_then(ev, st, info, args):
    outs = []
    for s2, var, get in fork_enum(st, args[0], 'Option', ['Some', 'None']):
        if var == 'None':
            outs.append((s2, NONE))
        else:
            outs.extend(_apply1(ev, s2, info, args[1], get('0')))
    return outs


@ax('std::option::Option::<T>::or_else', note='or_else(f) on Option; total if f is')
def a_opt_or_else(ev, st, info, args):
    outs = []
    for s2, var, get in fork_enum(st, args[0], 'Option', ['Some', 'None']):
        if var == 'Some':
            outs.append((s2, some(get('0'))))
        else:
            outs.extend(_apply0(ev, s2, info, args[1]))
    return outs


@ax('std::option::Option::<T>::or', note='or(b) on Option; total')
def a_opt_or(ev, st, info, args):
    outs = []
    for s2, var, get in fork_enum(st, args[0], 'Option', ['Some', 'None']):
        outs.append((s2, some(get('0')) if var == 'Some' else args[1]))
    return outs


@ax('std::option::Option::<T>::ok_or_else', note='ok_or_else(f): Some(v) -> Ok(v), None -> Err(f()); total if f is')
def a_ok_or_else(ev, st, info, args):
    outs = []
    for s2, var, get in fork_enum(st, args[0], 'Option', ['Some', 'None']):
        if var == 'Some':
            outs.append((s2, ok(get('0'))))
        else:
            for s3, e in _apply0(ev, s2, info, args[1]):
                outs.append((s3, err(e)))
    return outs


@ax('std::option::Option::<T>::unwrap_or_else', note='unwrap_or_else(f) on Option; total if f is')
def a_opt_unwrap_or_else(ev, st, info, args):
    outs = []
    for s2, var, get in fork_enum(st, args[0], 'Option', ['Some', 'None']):
        if var == 'Some':
            outs.append((s2, get('0')))
        else:
            outs.extend(_apply0(ev, s2, info, args[1]))
    return outs


@ax('std::option::Option::<T>::is_some_and', note='is_some_and(f); total if f is')
def a_is_some_and(ev, st, info, args):
    outs = []
    for s2, var, get in fork_enum(st, args[0], 'Option', ['Some', 'None']):
        if var == 'None':
            outs.append((s2, T.FALSE))
        else:
            outs.extend(_apply1(ev, s2, info, args[1], get('0')))
    return outs


def int_arith_by_ref(ev, st, info, args, op, ity):
    """a + &b etc. on integers: the operator impls for reference operands forward to the primitive operation (overflow panics when overflow checks are on)"""
    a, b = (ev.deref(x, st) if x[0] == 'ref' else x for x in args[:2])
    v = {'add': T.add, 'sub': T.sub, 'mul': T.mul}[op](a, b)
    if ev.facts.raw.get('overflow_checks', True):
        if not oblige(st, info, 'overflow', ev.int_range_cond(v, ity), '%s on %s' % (op, ity)):
            return []
        return [(st, v)]
    outs = []
    for s2, val in fork_bool(st, ev.int_range_cond(v, ity)):
        outs.append((s2, v if val else ('call', 'wrapping_' + op, (a, b))))
    return outs


@ax('std::convert::identity', note='identity(x) = x')
def a_identity(ev, st, info, args):
    return [(st, args[0])]


def a_clone_value(ev, st, info, args):
    v = args[0]
    if v[0] == 'ref':
        v = ev.deref(v, st)
    return [(st, v)]


TOTAL_NOTE['<std::... as std::clone::Clone>::clone'] = 'clone() of a std value type (Cow, String, Vec, addresses, integers) is an equal value; total'


@ax('std::result::Result::<T, E>::is_err_and', note='is_err_and(f): Err(e) -> f(e), Ok -> false; total if f is')
def a_is_err_and(ev, st, info, args):
    outs = []
    for s2, var, get in fork_enum(st, args[0], 'Result', ['Ok', 'Err']):
        if var == 'Ok':
            outs.append((s2, T.FALSE))
        else:
            outs.extend(_apply1(ev, s2, info, args[1], get('0')))
    return outs


@ax('std::result::Result::<T, E>::is_ok_and', note='is_ok_and(f): Ok(v) -> f(v), Err -> false; total if f is')
def a_is_ok_and(ev, st, info, args):
    outs = []
    for s2, var, get in fork_enum(st, args[0], 'Result', ['Ok', 'Err']):
        if var == 'Err':
            outs.append((s2, T.FALSE))
        else:
            outs.extend(_apply1(ev, s2, info, args[1], get('0')))
    return outs


@ax('std::option::Option::<T>::is_none_or', note='is_none_or(f); total if f is')
def a_is_none_or(ev, st, info, args):
    outs = []
    for s2, var, get in fork_enum(st, args[0], 'Option', ['Some', 'None']):
        if var == 'None':
            outs.append((s2, T.TRUE))
        else:
            outs.extend(_apply1(ev, s2, info, args[1], get('0')))
    return outs


@ax('std::option::Option::<&T>::copied', 'std::option::Option::<&T>::cloned', 'std::option::Option::<&mut T>::copied', note='copied/cloned on Option<&T>; total')
def a_opt_copied(ev, st, info, args):
    return [(st, args[0])]


@ax('std::result::Result::<T, E>::and_then', note='and_then(f) on Result; total if f is')
def a_res_and_then(ev, st, info, args):
    outs = []
    for s2, var, get in fork_enum(st, args[0], 'Result', ['Ok', 'Err']):
        if var == 'Err':
            outs.append((s2, err(get('0'))))
        else:
            outs.extend(_apply1(ev, s2, info, args[1], get('0')))
    return outs


@ax('std::result::Result::<T, E>::or_else', note='or_else(f) on Result; total if f is')
def a_res_or_else(ev, st, info, args):
    outs = []
    for s2, var, get in fork_enum(st, args[0], 'Result', ['Ok', 'Err']):
        if var == 'Ok':
            outs.append((s2, ok(get('0'))))
        else:
            outs.extend(_apply1(ev, s2, info, args[1], get('0')))
    return outs


@ax('std::result::Result::<T, E>::map_or', note='map_or(d, f) on Result; total if f is')
def a_res_map_or(ev, st, info, args):
    outs = []
    for s2, var, get in fork_enum(st, args[0], 'Result', ['Ok', 'Err']):
        if var == 'Err':
            outs.append((s2, args[1]))
        else:
            outs.extend(_apply1(ev, s2, info, args[2], get('0')))
    return outs


@ax('std::result::Result::<T, E>::map_or_else', note='map_or_else(d, f) on Result; total if d, f are')
def a_res_map_or_else(ev, st, info, args):
    outs = []
    for s2, var, get in fork_enum(st, args[0], 'Result', ['Ok', 'Err']):
        if var == 'Err':
            outs.extend(_apply1(ev, s2, info, args[1], get('0')))
        else:
            outs.extend(_apply1(ev, s2, info, args[2], get('0')))
    return outs


@ax('std::result::Result::<T, E>::unwrap_or', note='unwrap_or on Result; total')
def a_res_unwrap_or(ev, st, info, args):
    outs = []
    for s2, var, get in fork_enum(st, args[0], 'Result', ['Ok', 'Err']):
        outs.append((s2, get('0') if var == 'Ok' else args[1]))
    return outs


@ax('std::result::Result::<T, E>::unwrap_or_else', note='unwrap_or_else(f) on Result; total if f is')
def a_res_unwrap_or_else(ev, st, info, args):
    outs = []
    for s2, var, get in fork_enum(st, args[0], 'Result', ['Ok', 'Err']):
        if var == 'Ok':
            outs.append((s2, get('0')))
        else:
            outs.extend(_apply1(ev, s2, info, args[1], get('0')))
    return outs


@ax('std::result::Result::<T, E>::as_ref', 'std::result::Result::<T, E>::as_deref', note='as_ref on Result: a view of the same value; total')
def a_res_as_ref(ev, st, info, args):
    return [(st, args[0])]


@ax('std::result::Result::<T, E>::err', note='err(): Err(e) -> Some(e), Ok -> None; total')
def a_res_err(ev, st, info, args):
    outs = []
    for s2, var, get in fork_enum(st, args[0], 'Result', ['Ok', 'Err']):
        outs.append((s2, some(get('0')) if var == 'Err' else NONE))
    return outs


@ax('core::bool::<impl bool>::then_some', 'std::bool::<impl bool>::then_some', note='then_some(x): Some(x) if true else None; total')
def a_then_some(ev, st, info, args):
    outs = []
    for s2, val in fork_bool(st, args[0]):
        outs.append((s2, some(args[1]) if val else NONE))
    return outs


@ax('core::bool::<impl bool>::then', 'std::bool::<impl bool>::then', note='then(f): Some(f()) if true else None; total if f is')
def a_then(ev, st, info, args):
    outs = []
    for s2, val in fork_bool(st, args[0]):
        if not val:
            outs.append((s2, NONE))
        else:
            for s3, v in _apply0(ev, s2, info, args[1]):
                outs.append((s3, some(v)))
    return outs


@ax('std::mem::drop', 'core::mem::drop', note='drop; total (no Drop impl with effects in this crate)')
def a_drop(ev, st, info, args):
    return [(st, T.UNIT)]


@ax('std::array::<impl [T; N]>::map', note='[T; N]::map(f): f applied to the elements in order')
def a_array_map(ev, st, info, args):
    a, f = args[0], args[1]
    if a[0] == 'ref':
        a = ev.deref(a, st)
    if a[0] != 'arr' or len(a[1]) > 64:
        return [(st, ('opaque', 'array map over an array that is not an explicit list of elements'))]
    outs = []
    work = [(st, 0, ())]
    while work:
        s1, i, done = work.pop()
        if i == len(a[1]):
            outs.append((s1, ('arr', done)))
            continue
        for s2, r in ev.apply_closure(f, [a[1][i]], s1, info['fr'], info['site']):
            work.append((s2, i + 1, done + (r,)))
    return outs


@ax('std::iter::Iterator::try_fold', note='try_fold(init, f): threads an accumulator through f over the items in order, stops at the first Err; over an '
    'iterator of constant length it is applied item by item')
def a_try_fold(ev, st, info, args):
    it, acc0, f = args[0], args[1], args[2]
    if it[0] == 'ref':
        it = ev.deref(it, st)
    if f[0] != 'closure':
        return [(st, ('opaque', 'try_fold with a non-closure function'))]
    if not (is_iter(it) and iter_bound(it) is not None):
        return [(st, ('opaque', 'try_fold over an iterator without a constant bound'))]
    outs = []
    work = [(st, it, acc0)]
    while work:
        s1, cur, acc = work.pop()
        for s2, nxt, item in iter_step(ev, s1, cur):
            if item is None:
                outs.append((s2, ok(acc)))
                continue
            for s3, r in ev.apply_closure(f, [acc, item], s2, info['fr'], info['site']):
                for s4, var, get in fork_enum(s3, r, 'Result', ['Ok', 'Err']):
                    if var == 'Ok':
                        work.append((s4, nxt, get('0')))
                    else:
                        outs.append((s4, err(get('0'))))
    return outs


@ax('std::iter::Iterator::fold', note='fold(init, f): threads an accumulator through f over the items in order; over an iterator of constant length it is '
    'applied item by item')
def a_fold(ev, st, info, args):
    it, acc0, f = args[0], args[1], args[2]
    if it[0] == 'ref':
        it = ev.deref(it, st)
    if f[0] != 'closure' or not (is_iter(it) and iter_bound(it) is not None):
        return [(st, ('opaque', 'fold over an iterator without a constant bound'))]
    outs = []
    work = [(st, it, acc0)]
    while work:
        s1, cur, acc = work.pop()
        for s2, nxt, item in iter_step(ev, s1, cur):
            if item is None:
                outs.append((s2, acc))
                continue
            for s3, r in ev.apply_closure(f, [acc, item], s2, info['fr'], info['site']):
                work.append((s3, nxt, r))
    return outs


@ax('std::iter::Iterator::try_for_each', note='try_for_each(f): applies f to each item in order, stops at the first Err; analysed as a loop (widening) over the '
    'locations f captures by mutable reference')
def a_try_for_each(ev, st, info, args):
    it, f = args[0], args[1]
    if it[0] == 'ref':
        it = ev.deref(it, st)
    if f[0] != 'closure':
        return [(st, ('opaque', 'try_for_each with a non-closure function'))]
    if is_iter(it) and iter_bound(it) is not None:
        # an iterator over a sequence of known constant length: applied item by item (straight-line), stopping at the first Err
        outs = []
        work = [(st, it, 0)]
        while work:
            s1, cur, n = work.pop()
            for s2, nxt, item in iter_step(ev, s1, cur):
                if item is None:
                    outs.append((s2, ok(T.UNIT)))
                    continue
                for s3, r in ev.apply_closure(f, [item], s2, info['fr'], info['site']):
                    for s4, var, get in fork_enum(s3, r, 'Result', ['Ok', 'Err']):
                        if var == 'Ok':
                            work.append((s4, nxt, n + 1))
                        else:
                            outs.append((s4, err(get('0'))))
        if args[0][0] == 'ref':
            pass        # the iterator is consumed; its final state is not observable through try_for_each's by-value self
        return outs
    caps = [c for c in f[2] if c[0] == 'ref']
    site = info['site']['span']
    iloc = ('X', 'iter', site)
    entry = st.copy()
    entry.store[iloc] = it
    W = st.copy()
    name = '%s#try_for_each' % info['site']['fn']
    mu_it = ('mu', name + '#iter')
    W.store[iloc] = mu_it
    for k, c in enumerate(caps):
        cur = ev.deref(c, W)
        ev.store_at(info['fr'], c[1], c[2], ev.widen_term(cur, [('opaque', 'changed')], '%s#cap%d' % (name, k)), W)
    item = ('call', 'iter_item', (mu_it,))
    has = ('call', 'iter_has_next', (mu_it,))
    outs, backs = [], []
    # exit: no further item
    for s2, val in fork_bool(W.copy(), has):
        if not val:
            s2.store.pop(iloc, None)
            outs.append((s2, ok(T.UNIT)))
        else:
            for s3, r in ev.apply_closure(f, [item], s2, info['fr'], info['site']):
                for s4, var, get in fork_enum(s3, r, 'Result', ['Ok', 'Err']):
                    if var == 'Ok':
                        b = s4.copy()
                        b.store[iloc] = ('call', 'iter_advance', (mu_it,))
                        backs.append(b)
                    else:
                        s4.store.pop(iloc, None)
                        outs.append((s4, err(get('0'))))
    ev.loops.append({'fn': info['site']['fn'], 'header': 'try_for_each@' + site, 'fid': info['fr'].fid, 'entry': entry, 'widened': W, 'backs': backs,
                     'exits': outs, 'body': []})
    for b in backs:
        ev.extra_obls.extend(b.obls[len(W.obls):])
    return outs


@ax('std::option::Option::<T>::as_mut', note='as_mut: Some(&mut payload) or None; total')
def a_as_mut(ev, st, info, args):
    r = args[0]
    if r[0] != 'ref':
        return [(st, ('opaque', 'as_mut on untracked storage'))]
    v = ev.deref(r, st)
    outs = []
    for s2, var, get in fork_enum(st, v, 'Option', ['Some', 'None']):
        outs.append((s2, some(('ref', r[1], r[2] + (('f', '0', 'Some'),))) if var == 'Some' else NONE))
    return outs


@ax('std::option::Option::<T>::as_ref', 'std::option::Option::<T>::as_deref', note='as_ref / as_deref: a view of the same payload; total')
def a_as_ref(ev, st, info, args):
    outs = []
    for s2, var, get in fork_enum(st, args[0], 'Option', ['Some', 'None']):
        outs.append((s2, some(content(get('0'))) if var == 'Some' else NONE))
    return outs


@ax('std::option::Option::<T>::take', note='take(): returns the old value and leaves None; total')
def a_take(ev, st, info, args):
    r = args[0]
    old = ev.deref(r, st)
    write_ref(ev, st, info, r, NONE)
    return [(st, old)]


@ax('std::option::Option::<T>::unwrap_or', note='unwrap_or; total')
def a_unwrap_or(ev, st, info, args):
    outs = []
    for s2, var, get in fork_enum(st, args[0], 'Option', ['Some', 'None']):
        outs.append((s2, get('0') if var == 'Some' else args[1]))
    return outs


@ax('std::option::Option::<T>::unwrap_or_default', note='unwrap_or_default: 0 / empty for the types used; total')
def a_unwrap_or_default(ev, st, info, args):
    t = ty_arg(info, 0)
    outs = []
    for s2, var, get in fork_enum(st, args[0], 'Option', ['Some', 'None']):
        outs.append((s2, get('0') if var == 'Some' else default_of(t)))
    return outs


@ax('std::option::Option::<T>::unwrap', 'std::option::Option::<T>::expect', note='unwrap/expect panic on None')
def a_unwrap(ev, st, info, args):
    v = args[0]
    if v[0] == 'adt':
        if not oblige(st, info, 'unwrap', T.TRUE if v[2] == 'Some' else T.FALSE, 'Option is Some'):
            return []
        return [(st, T.adt_field(v, '0'))] if v[2] == 'Some' else []
    if not oblige(st, info, 'unwrap', ('isvar', v, 'Some'), 'Option is Some'):
        return []
    return [(st, ('vfield', v, 'Some', '0'))]


@ax('std::result::Result::<T, E>::unwrap', 'std::result::Result::<T, E>::expect', note='unwrap/expect panic on Err')
def a_unwrap_res(ev, st, info, args):
    v = args[0]
    if v[0] == 'adt':
        if not oblige(st, info, 'unwrap', T.TRUE if v[2] == 'Ok' else T.FALSE, 'Result is Ok'):
            return []
        return [(st, T.adt_field(v, '0'))] if v[2] == 'Ok' else []
    if not oblige(st, info, 'unwrap', ('isvar', v, 'Ok'), 'Result is Ok'):
        return []
    return [(st, ('vfield', v, 'Ok', '0'))]


@ax('std::result::Result::<T, E>::map_err', note='map_err(f): Ok(v) -> Ok(v), Err(e) -> Err(f(e)); total if f is')
def a_map_err(ev, st, info, args):
    outs = []
    for s2, var, get in fork_enum(st, args[0], 'Result', ['Ok', 'Err']):
        if var == 'Ok':
            outs.append((s2, ok(get('0'))))
        else:
            for s3, e in ev.apply_closure(args[1], [get('0')], s2, info['fr'], info['site']):
                outs.append((s3, err(e)))
    return outs


@ax('std::result::Result::<T, E>::map', note='map(f) on Result; total if f is')
def a_map_res(ev, st, info, args):
    outs = []
    for s2, var, get in fork_enum(st, args[0], 'Result', ['Ok', 'Err']):
        if var == 'Err':
            outs.append((s2, err(get('0'))))
        else:
            for s3, v in ev.apply_closure(args[1], [get('0')], s2, info['fr'], info['site']):
                outs.append((s3, ok(v)))
    return outs


@ax('std::option::Option::<T>::map', note='map(f) on Option; total if f is')
def a_map_opt(ev, st, info, args):
    outs = []
    for s2, var, get in fork_enum(st, args[0], 'Option', ['Some', 'None']):
        if var == 'None':
            outs.append((s2, NONE))
        else:
            for s3, v in ev.apply_closure(args[1], [get('0')], s2, info['fr'], info['site']):
                outs.append((s3, some(v)))
    return outs


@ax('std::result::Result::<T, E>::ok', note='ok(): Ok(v) -> Some(v), Err -> None; total')
def a_res_ok(ev, st, info, args):
    outs = []
    for s2, var, get in fork_enum(st, args[0], 'Result', ['Ok', 'Err']):
        outs.append((s2, some(get('0')) if var == 'Ok' else NONE))
    return outs


@ax('<std::result::Result<T, E> as std::ops::Try>::branch', note='? on Result: Ok(v) continues with v, Err(e) returns early')
def a_try_branch(ev, st, info, args):
    outs = []
    for s2, var, get in fork_enum(st, args[0], 'Result', ['Ok', 'Err']):
        if var == 'Ok':
            outs.append((s2, T.mk_adt('std::ops::ControlFlow', 'Continue', [('0', get('0'))])))
        else:
            outs.append((s2, T.mk_adt('std::ops::ControlFlow', 'Break', [('0', err(get('0')))])))
    return outs


@ax('<std::option::Option<T> as std::ops::Try>::branch', note='? on Option')
def a_try_branch_opt(ev, st, info, args):
    outs = []
    for s2, var, get in fork_enum(st, args[0], 'Option', ['Some', 'None']):
        if var == 'Some':
            outs.append((s2, T.mk_adt('std::ops::ControlFlow', 'Continue', [('0', get('0'))])))
        else:
            outs.append((s2, T.mk_adt('std::ops::ControlFlow', 'Break', [('0', NONE)])))
    return outs


@ax('<std::option::Option<T> as std::ops::FromResidual<std::option::Option<std::convert::Infallible>>>::from_residual', note='? on Option returns None')
def a_from_residual_opt(ev, st, info, args):
    return [(st, NONE)]


@ax('<std::result::Result<T, F> as std::ops::FromResidual<std::result::Result<std::convert::Infallible, E>>>::from_residual',
    note='? converts the error with From::from and returns Err')
def a_from_residual(ev, st, info, args):
    r = args[0]
    e = T.adt_field(r, '0') if r[0] == 'adt' else ('vfield', r, 'Err', '0')
    # rargs = [T, F, E]
    ra = info.get('rargs') or []
    if len(ra) >= 3:
        E, F = ra[1], ra[2]     # impl<T, E, F: From<E>> FromResidual<Result<Infallible, E>> for Result<T, F>
        outs = []
        for s2, v in convert(ev, st, info, e, E, F):
            outs.append((s2, err(v)))
        return outs
    return [(st, err(('call', 'from', (e,))))]


def convert(ev, st, info, x, src, dst):
    """From::from(x) : src -> dst"""
    if src == dst:
        return [(st, x)]
    params = set(g for g in info['fr'].fn['generics'] if not g.startswith("'")) | ev.entry_generics
    if tys.is_concrete(src, params) and tys.is_concrete(dst, params):
        r = ev.find_impl('std::convert::From', dst, [src], 'from')
        if r is not None:
            return ev.inline(r[1], r[2], [x], st, info['fr'], info['site'])
        s, d = tys.show(src), tys.show(dst)
        if s in solver.INT_RANGES and d in solver.INT_RANGES:
            rs, rd = solver.INT_RANGES[s], solver.INT_RANGES[d]
            if rs[0] >= rd[0] and rs[1] <= rd[1]:
                return [(st, x)]
        if dst[0] == 'path' and dst[1] == 'std::option::Option' and dst[2] and dst[2][0] == src:
            return [(st, some(x))]
        if dst[0] == 'path' and dst[1] == 'std::borrow::Cow':
            if src[0] == 'ref':
                return [(st, T.mk_adt('std::borrow::Cow', 'Borrowed', [('0', content(x))]))]
            return [(st, T.mk_adt('std::borrow::Cow', 'Owned', [('0', content(x))]))]
        if d == 'std::net::Ipv4Addr' and s == '[u8; 4]':
            return [(st, ipv4(x))]
        if d == 'std::net::Ipv6Addr' and s == '[u8; 16]':
            return [(st, ipv6(x))]
        if d == 'std::io::Error' and s == 'std::io::ErrorKind':
            return [(st, ('call', 'io_error', (x,)))]
        if src[0] == 'ref' and src[2] == dst:
            return [(st, x)]
        return [(st, ('opaque', 'conversion %s -> %s' % (s, d)))]
    return [(st, ('call', 'into:' + tys.show(dst), (x,)))]


@ax('<T as std::convert::Into<U>>::into', 'std::convert::Into::into', note='Into::into is From::from of the target type')
def a_into(ev, st, info, args):
    ra = info.get('rargs') or info.get('targs') or []
    if len(ra) >= 2:
        return convert(ev, st, info, args[0], ra[0], ra[1])
    return [(st, ('opaque', 'into without type arguments'))]


@ax('<T as std::convert::From<T>>::from', note='From<T> for T is the identity')
def a_from_id(ev, st, info, args):
    return [(st, args[0])]


@ax('std::convert::From::from', note='From::from by type')
def a_from(ev, st, info, args):
    ta = info.get('targs') or []
    if len(ta) >= 2:
        return convert(ev, st, info, args[0], ta[1], ta[0])
    return [(st, ('opaque', 'from without type arguments'))]


@ax('<std::io::Error as std::convert::From<std::io::ErrorKind>>::from', note='io::Error from ErrorKind; total')
def a_io_error(ev, st, info, args):
    return [(st, ('call', 'io_error', (args[0],)))]


@ax('<std::option::Option<T> as std::convert::From<T>>::from', note='Some(x)')
def a_opt_from(ev, st, info, args):
    return [(st, some(args[0]))]


@ax("<std::borrow::Cow<'a, [T]> as std::convert::From<&'a [T]>>::from", '<std::borrow::Cow<[T]> as std::convert::From<&[T]>>::from',
    "<std::borrow::Cow<'a, str> as std::convert::From<&'a str>>::from", '<std::borrow::Cow<str> as std::convert::From<&str>>::from',
    "std::string::<impl std::convert::From<&'a str> for std::borrow::Cow<'a, str>>::from", 'std::string::<impl std::convert::From<&str> for std::borrow::Cow<str>>::from',
    "std::vec::cow::<impl std::convert::From<&'a [T]> for std::borrow::Cow<'a, [T]>>::from", 'std::vec::cow::<impl std::convert::From<&[T]> for std::borrow::Cow<[T]>>::from',
    note='Cow::Borrowed(x)')
def a_cow_from(ev, st, info, args):
    return [(st, T.mk_adt('std::borrow::Cow', 'Borrowed', [('0', content(args[0]))]))]


# ------------------------------------------------------------------------------------------
# net

def ipv4(seq):
    seq = T.canon_seq(content(seq))
    if seq[0] == 'call' and seq[1] == 'octets4':
        return seq[2][0]
    return ('call', 'ipv4', (seq,))


def ipv6(seq):
    seq = T.canon_seq(content(seq))
    if seq[0] == 'call' and seq[1] == 'octets16':
        return seq[2][0]
    return ('call', 'ipv6', (seq,))


@ax('std::net::Ipv4Addr::new', note='Ipv4Addr::new(a,b,c,d) has octets [a,b,c,d]')
def a_ipv4_new(ev, st, info, args):
    return [(st, ipv4(('arr', tuple(args))))]


@ax('<std::net::Ipv4Addr as std::convert::From<u32>>::from', 'std::net::Ipv4Addr::from_bits',
    '<std::net::Ipv6Addr as std::convert::From<u128>>::from', 'std::net::Ipv6Addr::from_bits',
    note='Ipv4Addr::from(u32) / Ipv6Addr::from(u128) / from_bits: the address whose octets are the big-endian bytes of the integer; total')
def a_ip_from_bits(ev, st, info, args):
    v6 = 'Ipv6' in (info['c'].get('rpath') or info['c']['path'])
    seq = T.mk_tobytes('tobe', 16 if v6 else 4, args[0])
    return [(st, ipv6(seq) if v6 else ipv4(seq))]


@ax('std::net::Ipv6Addr::new', note='Ipv6Addr::new(a..h) has octets a.to_be_bytes() ++ .. ++ h.to_be_bytes()')
def a_ipv6_new(ev, st, info, args):
    return [(st, ipv6(T.mk_concat([T.mk_tobytes('tobe', 2, a) for a in args])))]


@ax('<std::net::Ipv6Addr as std::convert::From<[u16; 8]>>::from', note='Ipv6Addr::from(segments)')
def a_ipv6_from_segments(ev, st, info, args):
    a = args[0]
    if a[0] == 'arr' and len(a[1]) == 8:
        return [(st, ipv6(T.mk_concat([T.mk_tobytes('tobe', 2, x) for x in a[1]])))]
    return [(st, ('opaque', 'Ipv6Addr::from(segments) of an unknown array'))]


@ax('<std::net::Ipv4Addr as std::convert::From<[u8; 4]>>::from', note='Ipv4Addr::from(octets)')
def a_ipv4_from(ev, st, info, args):
    return [(st, ipv4(args[0]))]


@ax('<std::net::Ipv6Addr as std::convert::From<[u8; 16]>>::from', note='Ipv6Addr::from(octets) in network order')
def a_ipv6_from(ev, st, info, args):
    return [(st, ipv6(args[0]))]


@ax('std::net::Ipv4Addr::octets', note='octets() inverts new/from')
def a_ipv4_octets(ev, st, info, args):
    v = args[0]
    if v[0] == 'call' and v[1] == 'ipv4':
        return [(st, v[2][0])]
    o = ('call', 'octets4', (v,))
    T.KNOWN_LEN[o] = 4
    return [(st, o)]


@ax('core::net::ip_addr::<impl std::convert::From<std::net::Ipv4Addr> for u32>::from', 'std::net::Ipv4Addr::to_bits',
    'core::net::ip_addr::<impl std::convert::From<std::net::Ipv6Addr> for u128>::from', 'std::net::Ipv6Addr::to_bits',
    note='u32::from(Ipv4Addr) / u128::from(Ipv6Addr) / to_bits: the big-endian integer of the octets; total')
def a_ip_to_bits(ev, st, info, args):
    v6 = 'Ipv6' in (info['c'].get('rpath') or info['c']['path'])
    outs = (a_ipv6_octets if v6 else a_ipv4_octets)(ev, st, info, args)
    o = outs[0][1]
    n = 16 if v6 else 4
    return [(st, T.mk_be(tuple(T.mk_at(o, I(k)) for k in range(n))))]


@ax('std::result::Result::<T, E>::and', note='and(res): Ok(_) -> res, Err(e) -> Err(e); total')
def a_res_and(ev, st, info, args):
    outs = []
    for s2, var, get in fork_enum(st, args[0], 'Result', ['Ok', 'Err']):
        outs.append((s2, args[1] if var == 'Ok' else err(get('0'))))
    return outs


@ax('std::net::Ipv6Addr::octets', note='octets() inverts from')
def a_ipv6_octets(ev, st, info, args):
    v = args[0]
    if v[0] == 'call' and v[1] == 'ipv6':
        return [(st, v[2][0])]
    o = ('call', 'octets16', (v,))
    T.KNOWN_LEN[o] = 16
    return [(st, o)]


@ax('std::net::SocketAddrV4::ip', 'std::net::SocketAddrV6::ip', note='ip() is the stored address')
def a_sock_ip(ev, st, info, args):
    return [(st, ('call', 'sock_ip', (args[0],)))]


@ax('std::net::SocketAddrV4::port', 'std::net::SocketAddrV6::port', note='port() is the stored port')
def a_sock_port(ev, st, info, args):
    v = ('call', 'sock_port', (args[0],))
    T.TYPES[v] = 'u16'
    T.NUMERIC[v] = True
    return [(st, v)]


@ax('std::net::SocketAddrV6::scope_id', 'std::net::SocketAddrV6::flowinfo', note='scope_id() / flowinfo() are the stored u32 fields')
def a_sock_u32(ev, st, info, args):
    v = ('call', 'sock_' + info['c']['path'].rsplit('::', 1)[-1], (args[0],))
    T.TYPES[v] = 'u32'
    T.NUMERIC[v] = True
    return [(st, v)]


# ------------------------------------------------------------------------------------------
# Vec / Write

@ax('std::vec::Vec::<T>::with_capacity', 'std::vec::Vec::<T>::new', '<std::vec::Vec<T> as std::default::Default>::default', note='new / with_capacity create an empty vector')
def a_vec_new(ev, st, info, args):
    if args:
        st.notes.append(('capacity-arg', T.short(args[0]), info['site']['fn']))
    return [(st, ('bytes', b''))]


@ax('std::vec::Vec::<T, A>::push', note='push appends one element')
def a_vec_push(ev, st, info, args):
    cur = content(ev.deref(args[0], st))
    write_ref(ev, st, info, args[0], T.mk_concat([cur, ('arr', (args[1],))]))
    return [(st, T.UNIT)]


@ax('std::vec::Vec::<T, A>::extend_from_slice', note='extend_from_slice appends the slice')
def a_vec_extend(ev, st, info, args):
    cur = content(ev.deref(args[0], st))
    write_ref(ev, st, info, args[0], T.mk_concat([cur, content(args[1])]))
    return [(st, T.UNIT)]


@ax('std::vec::Vec::<T, A>::reserve', 'std::vec::Vec::<T, A>::reserve_exact', 'std::vec::Vec::<T, A>::shrink_to_fit',
    note='capacity changes leave the contents unchanged')
def a_vec_reserve(ev, st, info, args):
    return [(st, T.UNIT)]


@ax('std::io::Write::write_all', note='write_all(buf): nothing for an empty buf, otherwise one write(buf), given that write returns '
    'Ok(len(buf)) whenever it returns Ok (checked for Writer::write by rule C20.W)')
def a_write_all(ev, st, info, args):
    ra = info.get('rargs') or []
    self_ty = ra[0] if ra else None
    buf = content(args[1])
    outs = []
    for s2, empty in fork_bool(st, T.eq0(T.mk_len(buf))):
        if empty:
            outs.append((s2, ok(T.UNIT)))
            continue
        r = ev.find_impl('std::io::Write', self_ty, [], 'write') if self_ty is not None else None
        if r is None:
            outs.append((s2, ('opaque', 'write_all on unknown writer')))
            continue
        for s3, res in ev.inline(r[1], r[2], [args[0], buf], s2, info['fr'], info['site']):
            for s4, var, get in fork_enum(s3, res, 'Result', ['Ok', 'Err']):
                outs.append((s4, ok(T.UNIT) if var == 'Ok' else err(get('0'))))
    return outs


# ------------------------------------------------------------------------------------------
# formatting

@ax("std::fmt::Formatter::<'a>::write_str", 'std::fmt::Formatter::write_str', '<std::fmt::Formatter as std::fmt::Write>::write_str',
    note='write_str appends the text to the output (sink errors not modelled)')
def a_write_str(ev, st, info, args):
    cur = ev.deref(args[0], st)
    out = T.adt_field(cur, 'out') if cur[0] == 'adt' and cur[1] == '$Formatter' else ('call', 'fmt_out', (cur,))
    write_ref(ev, st, info, args[0], T.mk_adt('$Formatter', 'F', [('out', T.mk_concat([out, content(args[1])]))]))
    return [(st, ok(T.UNIT))]


@ax("core::fmt::rt::Argument::<'_>::new_display", 'core::fmt::rt::Argument::new_display', note='{} placeholder argument')
def a_arg_display(ev, st, info, args):
    return [(st, T.mk_adt('$FmtArg', 'display', [('0', args[0])]))]


@ax("core::fmt::rt::Argument::<'_>::new_debug", 'core::fmt::rt::Argument::new_debug', note='{:?} placeholder argument')
def a_arg_debug(ev, st, info, args):
    return [(st, T.mk_adt('$FmtArg', 'debug', [('0', args[0])]))]


@ax("core::fmt::rt::Argument::<'_>::new_upper_hex", "core::fmt::rt::Argument::<'_>::new_lower_hex", 'core::fmt::rt::Argument::new_upper_hex', 'core::fmt::rt::Argument::new_lower_hex', note='{:X} placeholder argument')
def a_arg_hex(ev, st, info, args):
    return [(st, T.mk_adt('$FmtArg', 'hex', [('0', args[0])]))]


@ax("std::fmt::Arguments::<'a>::new", 'std::fmt::Arguments::new', note="format_args!: template bytes (rustc's compact encoding) + arguments")
def a_arguments_new(ev, st, info, args):
    return [(st, T.mk_adt('$FmtArgs', 'A', [('template', content(args[0])), ('args', content(args[1]))]))]


@ax("std::fmt::Arguments::<'a>::from_str", "std::fmt::Arguments::<'a>::new_const", note='format_args! without arguments')
def a_arguments_const(ev, st, info, args):
    return [(st, T.mk_adt('$FmtArgs', 'A', [('template', ('call', 'literal', (content(args[0]),))), ('args', ('arr', ()))]))]


def decode_template(tpl):
    """rustc's compact fmt template -> list of ('lit', bytes) | ('arg', options)   (None if unknown)"""
    out = []
    i = 0
    n = len(tpl)
    while i < n:
        b = tpl[i]
        if b == 0:
            return out if i == n - 1 else None
        if b < 0x80:
            out.append(('lit', tpl[i + 1:i + 1 + b]))
            i += 1 + b
        elif b == 0xC0:
            out.append(('arg', 'default'))
            i += 1
        else:
            return None
    return None


@ax("std::fmt::Formatter::<'a>::write_fmt", 'std::fmt::Formatter::write_fmt', note='write_fmt writes the literal pieces and the formatted arguments in order')
def a_write_fmt(ev, st, info, args):
    cur = ev.deref(args[0], st)
    out = T.adt_field(cur, 'out') if cur[0] == 'adt' and cur[1] == '$Formatter' else ('call', 'fmt_out', (cur,))
    fa = args[1]
    pieces = None
    if fa[0] == 'adt' and fa[1] == '$FmtArgs':
        tpl = T.adt_field(fa, 'template')
        fargs = T.adt_field(fa, 'args')
        if tpl[0] == 'bytes':
            dec = decode_template(tpl[1])
            if dec is not None and fargs[0] in ('arr', 'bytes'):
                alist = list(fargs[1]) if fargs[0] == 'arr' else []
                pieces = []
                k = 0
                for kind, x in dec:
                    if kind == 'lit':
                        pieces.append(('bytes', bytes(x)))
                    else:
                        if k >= len(alist):
                            pieces = None
                            break
                        a = alist[k]
                        k += 1
                        if a[0] == 'adt' and a[1] == '$FmtArg':
                            pieces.append(('call', 'fmt:' + a[2], (a[4][0],)))
                        else:
                            pieces.append(('call', 'fmt:?', (a,)))
                if pieces is not None and k != len(alist):
                    pieces = None
    if pieces is None:
        new = T.mk_concat([out, ('call', 'fmt_unknown', (fa,))])
    else:
        new = T.mk_concat([out] + pieces)
    write_ref(ev, st, info, args[0], T.mk_adt('$Formatter', 'F', [('out', new)]))
    return [(st, ok(T.UNIT))]
